"""Independent high-precision reference model (mpmath, 40 digits).

Written from Weng & Lin (JMLR 12, 2011), Algorithms 1-4, and the library's documentation of its
extensions (tau inflation, per-player split, kappa floor, gamma callback, limit_sigma) -- not from
the library's code.  Every value comes with the tolerance that DESIGN.md section 4 (T3, T4) derives
from the property text: 1e-9 relative in backward-error form, and the stated allowances on the
documented asymptotic branches of the truncated-Gaussian corrections.
"""
import sys

from .util import bootstrap

bootstrap()
import mpmath as mp  # noqa: E402

mp.mp.dps = 40
M = mp.mpf
EPS = M(sys.float_info.epsilon)
R = M("1e-9")
SLIVER = M("1e-6")


def Phi(x):
    return mp.ncdf(x)


def phi(x):
    return mp.npdf(x)


def V_exact(x, t):
    y = x - t
    return phi(y) / Phi(y)


def W_exact(x, t):
    y = x - t
    v = V_exact(x, t)
    return v * (v + y)


def band(x, t):
    xx = abs(x)
    return Phi(t - xx) - Phi(-t - xx)


def Vt_exact(x, t):
    return -(phi(t - x) - phi(-t - x)) / band(x, t)


def Wt_exact(x, t):
    return ((t - x) * phi(t - x) + (t + x) * phi(t + x)) / band(x, t) + Vt_exact(x, t) ** 2


def corr_v(x, t):
    """(exact V, absolute tolerance, regime)"""
    val = V_exact(x, t)
    if Phi(x - t) < EPS * (1 + SLIVER):
        return val, M("0.02") * abs(val), "asym"
    return val, R * abs(val) + M("1e-300"), "exact"


def corr_w(x, t):
    val = W_exact(x, t)
    if Phi(x - t) < EPS * (1 + SLIVER):
        return val, M("0.02") * abs(val), "asym"
    return val, R * abs(val) + M("1e-300"), "exact"


def corr_vt(x, t):
    val = Vt_exact(x, t)
    if band(x, t) < M("1e-5") * (1 + SLIVER):
        return val, 2 * t, "asym"
    return val, R * max(abs(val), 1), "exact"


def corr_wt(x, t):
    val = Wt_exact(x, t)
    if band(x, t) < M("1e-5") * (1 + SLIVER):
        return val, 20 * t + M("1e-13") / t, "asym"
    return val, R * max(abs(val), 1) + M("1e-13") / t, "exact"


def dense_ranks(rankvals):
    """competition rank, 0-based: number of teams strictly better (smaller value)."""
    return [sum(1 for o in rankvals if o < r) for r in rankvals]


def ref_rate(kind, beta, kappa, tau, limit_sigma, gamma, teams, rankvals):
    """teams: [[(mu, sigma), ...], ...] floats; rankvals: comparable numbers, lower is better.
    gamma: callable(c, k, mu, sigma_sq, team, rank) -> float, or None for the default sqrt(s2)/c.
    Returns (rows, info); rows[i][j] = dict(mu, mu_tol, sig, sig_lo, sig_hi)."""
    beta = M(beta)
    kappa = M(kappa)
    tau = M(tau)
    k = len(teams)
    infl = [[(M(p[0]), mp.sqrt(M(p[1]) ** 2 + tau ** 2)) for p in team] for team in teams]
    theta = [mp.fsum(p[0] for p in team) for team in infl]
    ssq = [mp.fsum(p[1] ** 2 for p in team) for team in infl]
    r = dense_ranks(rankvals)
    order = sorted(range(k), key=lambda i: rankvals[i])  # stable: tied teams keep input order
    info = dict(asym_v=0, asym_vt=0, exact_v=0, exact_vt=0, floor=0, maxexp=0.0)

    def g(c, i):
        if gamma is None:
            return mp.sqrt(ssq[i]) / c
        return M(gamma(float(c), k, float(theta[i]), float(ssq[i]), list(teams[i]), r[i]))

    omega = [M(0)] * k
    omega_tol = [M(0)] * k
    delta = [M(0)] * k
    delta_tol = [M(0)] * k
    if kind == "PL":
        c = mp.sqrt(mp.fsum(s + beta ** 2 for s in ssq))
        e = [mp.exp(th / c) for th in theta]
        info["maxexp"] = float(max(abs(th / c) for th in theta))
        S = [mp.fsum(e[s] for s in range(k) if r[s] >= r[q]) for q in range(k)]
        A = [sum(1 for s in range(k) if r[s] == r[q]) for q in range(k)]
        for i in range(k):
            om = M(0)
            om_abs = M(0)
            de = M(0)
            for q in range(k):
                if r[q] <= r[i]:
                    p = e[i] / S[q]
                    if q == i:
                        om += (1 - p) / A[q]
                        om_abs += (1 + p) / A[q]
                    else:
                        om -= p / A[q]
                        om_abs += p / A[q]
                    de += p * (1 - p) / A[q]
            omega[i] = om * ssq[i] / c
            omega_tol[i] = R * om_abs * ssq[i] / c
            gi = g(c, i)
            delta[i] = de * ssq[i] / c ** 2 * gi
            # backward-error form: p carries an ABSOLUTE rounding error of a few eps, which (1 - p) turns into a large
            # relative error when p is within 1e-8 of 1 (a heavy favourite); invisible unless gamma is huge
            nterms = sum(1 for q in range(k) if r[q] <= r[i])
            delta_tol[i] = R * abs(delta[i]) + abs(gi) * ssq[i] / c ** 2 * 8 * EPS * nterms
    else:
        full = kind in ("BTF", "TMF")
        tm = kind in ("TMF", "TMP")
        pos = {team: idx for idx, team in enumerate(order)}
        for i in range(k):
            if full:
                opp = [q for q in range(k) if q != i]
            else:
                pi = pos[i]
                opp = [order[j] for j in (pi - 1, pi + 1) if 0 <= j < k]
            om = M(0)
            omt = M(0)
            de = M(0)
            det = M(0)
            for q in opp:
                ciq = mp.sqrt(ssq[i] + ssq[q] + 2 * beta ** 2)
                if kind == "TMP":
                    ciq = 2 * ciq  # the library's definition of this model (DESIGN section 6)
                gam = g(ciq, i)
                info["maxexp"] = max(info["maxexp"], float(abs(theta[q] - theta[i]) / ciq))
                if not tm:
                    p = 1 / (1 + mp.exp((theta[q] - theta[i]) / ciq))
                    s = 1 if r[q] > r[i] else (M("0.5") if r[q] == r[i] else 0)
                    om += ssq[i] / ciq * (s - p)
                    omt += R * ssq[i] / ciq * (s + p)
                    d = gam * ssq[i] / ciq ** 2 * p * (1 - p)
                    de += d
                    # R relative on the term + the absolute rounding of p (a few eps), which (1 - p) amplifies for a
                    # heavy favourite; invisible unless gamma is huge
                    det += R * abs(d) + abs(gam) * ssq[i] / ciq ** 2 * 8 * EPS
                else:
                    x = (theta[i] - theta[q]) / ciq
                    t = kappa / ciq
                    if r[q] > r[i]:
                        vv, vtol, rg = corr_v(x, t)
                        ww, wtol, _ = corr_w(x, t)
                        sign = 1
                        info[rg + "_v"] += 1
                    elif r[q] < r[i]:
                        vv, vtol, rg = corr_v(-x, t)
                        ww, wtol, _ = corr_w(-x, t)
                        sign = -1
                        info[rg + "_v"] += 1
                    else:
                        vv, vtol, rg = corr_vt(x, t)
                        ww, wtol, _ = corr_wt(x, t)
                        sign = 1
                        info[rg + "_vt"] += 1
                    om += sign * ssq[i] / ciq * vv
                    omt += ssq[i] / ciq * vtol + R * ssq[i] / ciq * abs(vv)
                    d = gam * ssq[i] / ciq ** 2
                    de += d * ww
                    det += abs(d) * wtol + R * abs(d * ww)
            omega[i] = om
            omega_tol[i] = omt
            delta[i] = de
            delta_tol[i] = det
    out = []
    for i, team in enumerate(infl):
        row = []
        for j, (mu, s) in enumerate(team):
            share = s ** 2 / ssq[i]
            mu_new = mu + share * omega[i]
            mu_tol = share * omega_tol[i] + R * (abs(mu) + abs(share * omega[i]))

            def sg(d, s=s, share=share):
                return s * mp.sqrt(max(1 - share * d, kappa))

            a = sg(delta[i] + delta_tol[i])
            b = sg(delta[i] - delta_tol[i])
            mid = sg(delta[i])
            if 1 - share * delta[i] <= kappa:
                info["floor"] += 1
                if 1 - share * delta[i] > 0:
                    info["floor_window"] = info.get("floor_window", 0) + 1
            lo, hi = min(a, b), max(a, b)
            prior = M(teams[i][j][1])
            if limit_sigma:
                lo, hi, mid = min(lo, prior), min(hi, prior), min(mid, prior)
            lo = lo * (1 - R)
            hi = hi * (1 + R)
            row.append(dict(mu=mu_new, mu_tol=mu_tol, sig=mid, sig_lo=lo, sig_hi=hi,
                            dmu=share * omega[i], infl=s))
        out.append(row)
    info["ranks"] = r
    info["order"] = order
    return out, info


def ref_margin(beta, n_players):
    z = mp.sqrt(2) * mp.erfinv(2 * ((1 + M(1) / n_players) / 2) - 1)
    return mp.sqrt(n_players) * M(beta) * z


def ref_predict(beta, teams):
    """teams [[(mu, sigma)...]] -> (win list, rank-prob list, draw) as mpf, by the forms quoted in C12."""
    n = len(teams)
    N_ = sum(len(t) for t in teams)
    th = [mp.fsum(M(p[0]) for p in t) for t in teams]
    var = [mp.fsum(M(p[1]) ** 2 for p in t) for t in teams]
    b2 = M(beta) ** 2
    half = M(n) * (n - 1) / 2
    if n == 2:
        p = mp.ncdf((th[0] - th[1]) / mp.sqrt(N_ * b2 + var[0] + var[1]))
        win = [p, 1 - p]
    else:
        win = [
            mp.fsum(mp.ncdf((th[i] - th[j]) / mp.sqrt(n * b2 + var[i] + var[j])) for j in range(n) if j != i) / half
            for i in range(n)
        ]
    m = ref_margin(beta, N_)
    rank = [
        mp.fsum(mp.ncdf((th[i] - th[j] - m) / mp.sqrt(n * b2 + var[i] + var[j])) for j in range(n) if j != i) / half
        for i in range(n)
    ]
    bandsum = mp.fsum(
        mp.ncdf((m - (th[i] - th[j])) / mp.sqrt(n * b2 + var[i] + var[j]))
        - mp.ncdf((-m - (th[i] - th[j])) / mp.sqrt(n * b2 + var[i] + var[j]))
        for i in range(n)
        for j in range(n)
        if i != j
    )
    draw = bandsum / (1 if n == 2 else n * (n - 1))
    return win, rank, draw
