"""Run the repository's own test suite with the single-call contracts switched on (vmon.pytest_plugin) and return what the
contracts observed.  The suite runs in the tree under test (cwd = VERIF_REPO) and writes nothing into it."""
import json
import os
import subprocess
import sys
import tempfile

from .util import REPO, VERIF
from .verdict import Inconclusive

C17_CLAUSES = ("v", "w", "vt", "wt", "phi")


def run(prefix):
    """-> dict(evals={clause: n}, violations=[...], tests='101 passed ...') restricted to clauses of one property.
    prefix: 'C06/' ... or 'C17' (bare function-name clauses)."""
    with tempfile.TemporaryDirectory(prefix="vmon-pt-") as td:
        out = os.path.join(td, "pt.json")
        env = dict(os.environ, OPENSKILL_VERIF="1", VMON_PYTEST_OUT=out, PYTHONDONTWRITEBYTECODE="1",
                   PYTHONPATH=VERIF + os.pathsep + os.environ.get("PYTHONPATH", ""), VERIF_REPO=REPO)
        p = subprocess.run([sys.executable, "-m", "pytest", "-q", "-p", "no:cacheprovider", "-p", "vmon.pytest_plugin",
                            "--timeout=600"], cwd=REPO, env=env, capture_output=True, text=True, timeout=1200)
        if not os.path.exists(out):
            raise Inconclusive("repo tests under contracts produced no report: " + (p.stdout + p.stderr)[-400:])
        with open(out) as f:
            d = json.load(f)
    tail = (p.stdout.strip().splitlines() or [""])[-1]

    def mine(clause):
        if prefix == "C17":
            return clause.split("/")[0] in C17_CLAUSES or clause.startswith("in-situ")
        return clause.startswith(prefix)

    evals = {"repo-tests/" + k: v for k, v in d["evals"].items() if mine(k)}
    viols = []
    for v in d["violations"]:
        if mine(v["clause"]):
            v = dict(v, check=prefix.rstrip("/"), clause="repo-tests/" + v["clause"], kind="pytest")
            viols.append(v)
    return dict(evals=evals, violations=viols, repo_tests_under_contracts=dict(result=tail, exit=p.returncode,
                                                                               skipped_by_precondition=d.get("skipped", {})))
