"""Reach recording with sys.monitoring: which statement lines of the tree under test the workloads
(and therefore the oracles) actually executed, and which exceptions were raised inside it.
LINE events are disabled per location after the first hit, so the cost is negligible."""
import os
import sys
import types

from .util import bootstrap, REPO

bootstrap()

mon = sys.monitoring
TOOL = 4
_state = dict(on=False, hits=set(), total=set(), raised={}, codes=[])


def _collect_codes():
    codes, seen = [], set()

    def walk(c):
        if c in seen:
            return
        seen.add(c)
        codes.append(c)
        for k in c.co_consts:
            if isinstance(k, types.CodeType):
                walk(k)

    for name, mod in list(sys.modules.items()):
        if name.split(".")[0] != "openskill" or mod is None:
            continue
        for o in list(vars(mod).values()):
            if isinstance(o, types.FunctionType) and o.__module__ == name:
                walk(getattr(o, "__wrapped__", o).__code__)
            if isinstance(o, type) and o.__module__ == name:
                for a in list(vars(o).values()):
                    cands = [a.fget, a.fset, a.fdel] if isinstance(a, property) else [a]
                    for f in cands:
                        f = f.__func__ if isinstance(f, (staticmethod, classmethod)) else f
                        f = getattr(f, "__wrapped__", f)
                        if isinstance(f, types.FunctionType):
                            walk(f.__code__)
    return [c for c in codes if os.path.realpath(c.co_filename).startswith(os.path.realpath(REPO))]


def start():
    if _state["on"]:
        return
    import openskill.models  # noqa

    try:
        mon.use_tool_id(TOOL, "vmon-reach")
    except ValueError:
        return
    _state["on"] = True
    codes = _collect_codes()
    _state["codes"] = codes

    def on_line(code, line):
        _state["hits"].add((code.co_filename, code.co_qualname, line))
        return mon.DISABLE

    def on_raise(code, off, exc):
        if "openskill" in code.co_filename:
            k = (code.co_qualname, type(exc).__name__)
            _state["raised"][k] = _state["raised"].get(k, 0) + 1

    mon.register_callback(TOOL, mon.events.LINE, on_line)
    mon.register_callback(TOOL, mon.events.RAISE, on_raise)
    for c in codes:
        mon.set_local_events(TOOL, c, mon.events.LINE)
        for (_, _, l) in c.co_lines():
            if l is not None and l != c.co_firstlineno:
                _state["total"].add((c.co_filename, c.co_qualname, l))
    mon.set_events(TOOL, mon.events.RAISE)


def report(select=None):
    """{'file::qualname': [reached, total, [unreached lines]]} for functions whose qualname's last
    component is in `select` (None = all functions with at least one reached line)."""
    if not _state["on"]:
        return {}
    per = {}
    for (f, q, l) in _state["total"]:
        key = os.path.basename(f) + "::" + q
        per.setdefault(key, [set(), set()])[1].add(l)
    for (f, q, l) in _state["hits"]:
        key = os.path.basename(f) + "::" + q
        if key in per and l in per[key][1]:
            per[key][0].add(l)
    out = {}
    for key, (hit, tot) in per.items():
        last = key.split("::")[1].split(".")[-1]
        if select is not None:
            if not any(s in key.split("::")[1].split(".") for s in select):
                continue
        elif not hit:
            continue
        out[key] = [len(hit), len(tot), sorted(tot - hit)]
    return out


def raised():
    return {f"{q}:{e}": n for (q, e), n in _state["raised"].items()}
