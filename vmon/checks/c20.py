"""C20 - ratings can be built, stored and restored without changing any later result."""
import copy
import math

from .. import gen, league
from ..attach import observe
from ..rateprobe import exc_detail
from ..util import KIND, MODEL_NAMES, models

PROPERTY = "C20"
TECHNIQUE = "runtime monitoring: constructor/deepcopy contracts + lock-step history monitor (restored vs unrestored league, incl. anchor leagues with sub-ulp updates); id uniqueness across re-seeding and os.fork"
LEVEL = "exploration"
RULE = ("Contracts on model.rating(mu, sigma, name), create_rating([mu, sigma], name) and copy.deepcopy (of a rating, of "
        "nested team lists, of a list containing the same rating twice): values exactly as given (0, 0.0, -0.0, negatives, "
        "denormals, huge are values, defaults only for omitted arguments), ids unique, deepcopy preserves mu/sigma/name/id "
        "in a distinct object; ids also unique when the global random module is re-seeded between constructions and when ratings are constructed on both sides of an os.fork(). History monitor: two leagues from one seed, A keeps its objects, B after EVERY game "
        "serialises each player to (mu, sigma) through float.hex / repr round trips and rebuilds through create_rating or "
        "model.rating (alternating); all returned ratings and the three predictions made before each game are compared "
        "bit for bit. Non-trivial: a constructor call with a falsy value, or a league step after >=1 restore; distinct by "
        "hash of the arguments / (league seed, step).")
ASSUMPTIONS = ["the empty string as a name is outside the statement's 'given values' (create_rating maps it to None)",
               "same arithmetic on same floats => bit equality (T1)"]
REACH = ["rating", "create_rating", "__deepcopy__", "__init__", "rate"]
SHARDS = {"quick": 15, "thorough": 15}

POOL = [0, 0.0, -0.0, -1, -2.5, 1, 25, 25.0, 8.333, 5e-324, -5e-324, 1e-300, 1e300, -1e300, 1.7e308, 3, 1e-9, 100.0, 0.1]
NAMES = [None, "bob", "Zoë", "名前", "a b", "0", "None", "x" * 40, "bob ", "carol\n", " ", "\tdave", "0", "None", "a b  "]


def floors(tier):
    q = tier == "quick"
    return {"ctor/rating": 60000 if q else 6000000, "ctor/create_rating": 25000 if q else 2400000,
            "deepcopy": 25000 if q else 2400000, "deepcopy/fresh": 10000 if q else 1200000, "league/step": 12000 if q else 1500000, "ctor/falsy": 20000 if q else 1800000, "ctor/id-unique-across-fork": 1000 if q else 100000}


def generate(ctx):
    n = ctx.budget(120000, 12000000)
    rng = ctx.rng
    per = 40
    nctor = 0
    for _ in range(max(1, n // per)):
        items = []
        for _ in range(per):
            mu = rng.choice(POOL) if rng.random() < 0.7 else rng.uniform(-100, 100)
            sg = rng.choice(POOL) if rng.random() < 0.7 else rng.uniform(0, 30)
            how = rng.choice(["rating", "rating_kw", "rating_mu_only", "rating_sigma_only", "rating_none", "create", "create_named"])
            items.append([how, mu, sg, rng.choice(NAMES)])
        nctor += 1
        yield "ctor", dict(model=MODEL_NAMES[(nctor // 16 + ctx.shard) % 5] if nctor % 16 == 0 else rng.choice(MODEL_NAMES),
                           cfg=(dict(mu=rng.choice([25.0, 0.0, -3.0, 7]), sigma=rng.choice([25 / 3, 1.0, 0.5])) if rng.random() < 0.5 else
                                # arbitrary model defaults (one-decimal league settings and continuous draws): a default that is
                                # re-derived from other stored quantities (mu / z, 3 * (mu / 3) ...) is off by an ulp for a fraction
                                # of such pairs only (seeded C20-N)
                                dict(mu=rng.choice([round(rng.uniform(-50, 50), 1), rng.uniform(-50, 50), float(rng.randint(1, 3000))]),
                                     sigma=rng.choice([round(rng.uniform(0.1, 12), 1), rng.uniform(0.05, 12), rng.randint(1, 400) / 3]))),
                           items=items, fork=(nctor % 16 == 0))
    combos = [(m, mode) for m in MODEL_NAMES for mode in ("skill", "random", "adversarial")]
    G = 1000 if ctx.tier == "quick" else 20000
    for rep in range(1 if ctx.tier == "quick" else 7):
        for ci, (m, mode) in enumerate(combos):
            if (ci + 4 * rep) % ctx.nshards != ctx.shard:
                continue
            cfg = league.league_cfg(rng, gen, scale=rng.choice([1.0, 1.0, 1e-2, 1e2]), gammas=["default", "default", "dep"])
            yield "league", dict(model=m, cfg=cfg, players=rng.choice([12, 40, 40]), games=G, mode=mode,
                                 seed=rng.randrange(2 ** 31), percall=True, anchors=rng.choice([0, 3, 4]))
    # anchor leagues: a small pool around a few (nearly) certain reference players in a model without dynamics (tau = 0, the
    # usual way to pin the scale of a pool): their mean updates are below one ulp of mu, game after game
    for rep in range(2 if ctx.tier == "quick" else 40):
        for ci, m in enumerate(MODEL_NAMES):
            if (ci + 5 * rep) % ctx.nshards != ctx.shard:
                continue
            cfg = league.league_cfg(rng, gen, scale=rng.choice([1.0, 1.0, 1e-2, 1e2]), gammas=["default"])
            cfg["tau"] = 0.0
            yield "league", dict(model=m, cfg=cfg, players=rng.choice([6, 8]), games=G // 3, mode=rng.choice(["skill", "random"]),
                                 seed=rng.randrange(2 ** 31), percall=False, anchors=4)


def _exact(got, want):
    if isinstance(want, float) and isinstance(got, float):
        return got == want and math.copysign(1, got) == math.copysign(1, want)
    return got == want and not isinstance(got, bool)


def probe_ctor(ctx, payload):
    Ms = models()
    model_name = payload["model"]
    kind = KIND[model_name]
    model = Ms[model_name](**payload["cfg"])
    dmu, dsg = float(payload["cfg"]["mu"]), float(payload["cfg"]["sigma"])
    ids = set()
    made = []
    for how, mu, sg, name in payload["items"]:
        want_mu, want_sg, want_name = mu, sg, name
        try:
            if how == "rating":
                r = model.rating(mu, sg, name)
            elif how == "rating_kw":
                r = model.rating(name=name, sigma=sg, mu=mu)
            elif how == "rating_mu_only":
                r = model.rating(mu)
                want_sg, want_name = dsg, None
            elif how == "rating_sigma_only":
                r = model.rating(sigma=sg, name=name)
                want_mu = dmu
            elif how == "rating_none":
                r = model.rating(None, None, None)
                want_mu, want_sg, want_name = dmu, dsg, None
            elif how == "create":
                r = model.create_rating([mu, sg])
                want_name = None
            else:
                r = model.create_rating([mu, sg], name)
        except Exception as e:  # noqa: BLE001
            ctx.ev("ctor/" + ("create_rating" if how.startswith("create") else "rating"))
            ctx.violation("ctor/exception", "ctor", payload, dict(how=how, mu=mu, sigma=sg, name=name, exc=repr(e)), model_name, how)
            continue
        clause = "ctor/" + ("create_rating" if how.startswith("create") else "rating")
        ctx.ev(clause)
        falsy = (not mu) or (not sg)
        if falsy:
            ctx.ev("ctor/falsy")
        ok = _exact(r.mu, want_mu) and _exact(r.sigma, want_sg) and r.name == want_name
        if not ok:
            ctx.violation(clause, "ctor", payload, dict(how=how, given=[repr(mu), repr(sg), name], got=[repr(r.mu), repr(r.sigma), r.name],
                                                        want=[repr(want_mu), repr(want_sg), want_name]), model_name,
                          f"{how}/{'falsy' if falsy else 'plain'}")
        if not isinstance(r.id, str) or r.id in ids:
            ctx.violation("ctor/id-unique", "ctor", payload, dict(how=how, id=repr(r.id)), model_name, how)
        ids.add(r.id)
        made.append(r)
        ctx.case([model_name, how, repr(mu), repr(sg), name], falsy)
    # ids must be unique whatever the state of the GLOBAL random module: applications re-seed it (random.seed(s) per season
    # or per test) and fork; the state is saved and restored around this block
    import random as _random

    st = _random.getstate()
    try:
        seen = {}
        for rnd in range(3):
            _random.seed(12345)
            for how in ("rating", "create"):
                r = model.rating(1.0, 1.0) if how == "rating" else model.create_rating([1.0, 1.0])
                ctx.ev("ctor/id-unique-after-reseed")
                if r.id in seen or r.id in ids:
                    ctx.violation("ctor/id-unique-after-reseed", "ctor", payload, dict(id=r.id, first_seen=seen.get(r.id), round=rnd, how=how),
                                  model_name, "reseed")
                seen[r.id] = (rnd, how)
    finally:
        _random.setstate(st)
    # ... and whatever PROCESS constructs the rating: after os.fork() (multiprocessing's fork start method, pre-forking
    # servers) parent and children continue from the same memory image, so an id scheme built on state taken at import
    # time (a per-process prefix + counter, a seeded generator) hands the same ids out on both sides.  Every 16th batch.
    if payload.get("fork"):
        import os

        pre = [model.rating(1.0, 1.0).id for _ in range(3)]
        pipes = []
        for child in range(3):
            rfd, wfd = os.pipe()
            pid = os.fork()
            if pid == 0:  # child: construct, report the ids, leave without running any clean-up of the parent's state
                code = 0
                try:
                    os.close(rfd)
                    mine = [(model.rating(2.0, 1.0) if i % 2 else model.create_rating([2.0, 1.0])).id for i in range(8)]
                    os.write(wfd, ("\n".join(map(str, mine))).encode())
                    os.close(wfd)
                except BaseException:  # noqa: BLE001
                    code = 1
                os._exit(code)
            os.close(wfd)
            pipes.append((pid, rfd))
        mine = [(model.rating(2.0, 1.0) if i % 2 else model.create_rating([2.0, 1.0])).id for i in range(8)]
        groups = {"parent": mine}
        for pid, rfd in pipes:
            data = b""
            while True:
                chunk = os.read(rfd, 65536)
                if not chunk:
                    break
                data += chunk
            os.close(rfd)
            _, status = os.waitpid(pid, 0)
            if status != 0 or not data:
                ctx.skip("fork-child-failed")
                continue
            groups[f"child{pid}"] = data.decode().split("\n")
        ctx.ev("ctor/id-unique-across-fork", sum(len(v) for v in groups.values()))
        allids = {}
        for who, lst in groups.items():
            for x in lst:
                if x in allids or x in pre or x in ids:
                    ctx.violation("ctor/id-unique-across-fork", "ctor", payload,
                                  dict(id=x, constructed_in=who, also_constructed_in=allids.get(x, "the parent before the fork")),
                                  model_name, "fork")
                    break
                allids[x] = who
    # deepcopy of FRESH objects, taken before the monitor (or anything else) has read any attribute of the original:
    # a lazily initialised field must still be preserved by the copy
    for how, mu, sg, name in payload["items"][:6]:
        try:
            r = model.create_rating([mu, sg], name) if how.startswith("create") else model.rating(mu, sg, name)
            c = copy.deepcopy(r)
            n2 = copy.deepcopy([[model.rating(mu, sg, name)], [model.rating(sg, mu, name)]])
        except Exception as e:  # noqa: BLE001
            ctx.ev("deepcopy")
            ctx.violation("deepcopy/exception", "ctor", payload, dict(exc=repr(e)), model_name, "fresh")
            continue
        ctx.ev("deepcopy")
        ctx.ev("deepcopy/fresh")
        if c is r or c.id != r.id or c.name != r.name or not _exact(c.mu, r.mu) or not _exact(c.sigma, r.sigma) or c.id in ids:
            ctx.violation("deepcopy/fresh", "ctor", payload, dict(orig=[repr(r.mu), repr(r.sigma), r.name, r.id],
                                                                 copy=[repr(c.mu), repr(c.sigma), c.name, c.id]), model_name, "fresh")
        ids.add(r.id)
        if len({p.id for t in n2 for p in t}) != 2:
            ctx.violation("deepcopy/fresh-nested", "ctor", payload, dict(ids=[[p.id for p in t] for t in n2]), model_name, "fresh")
    # deepcopy contracts
    for r in made[:12]:
        ctx.ev("deepcopy")
        c = copy.deepcopy(r)
        if c is r or not (_exact(c.mu, r.mu) and _exact(c.sigma, r.sigma) and c.name == r.name and c.id == r.id) or type(c) is not type(r):
            ctx.violation("deepcopy/rating", "ctor", payload, dict(orig=[repr(r.mu), repr(r.sigma), r.name, r.id],
                                                                  copy=[repr(c.mu), repr(c.sigma), c.name, c.id], same_object=c is r),
                          model_name, "rating")
    # the empty string is a name like any other for rating() and for deepcopy (only create_rating maps it to None, see
    # ASSUMPTIONS): built through rating(), copied alone and nested, it must come back as ""
    ctx.ev("deepcopy")
    try:
        r = model.rating(1.5, 0.5, "")
        c = copy.deepcopy(r)
        c2 = copy.deepcopy([[r]])[0][0]
        if r.name != "" or c.name != "" or c2.name != "" or c.id != r.id:
            ctx.violation("deepcopy/empty-name", "ctor", payload, dict(built=repr(r.name), copy=repr(c.name), nested_copy=repr(c2.name)),
                          model_name, "empty-name")
    except Exception as e:  # noqa: BLE001
        ctx.violation("deepcopy/exception", "ctor", payload, dict(name="", exc=repr(e)), model_name, "empty-name")
    # ... of instances of application-side SUBCLASSES of the rating class too (inherited constructor / own constructor
    # signature / property-backed entity): whatever class the copy has, it is a distinct object with the same four values,
    # alone and inside nested team lists, and it is independent of the original
    from ..util import make_sub

    RC = type(model.rating())
    for which in (0, 1, 2):
        for r0 in made[which:which + 6:3]:
            ctx.ev("deepcopy")
            ctx.ev("deepcopy/subclass-instance")
            try:
                r = make_sub(RC, which, r0.mu, r0.sigma, r0.name)
                c = copy.deepcopy(r)
                c2 = copy.deepcopy([[r, r0]])[0][0]
                okc = all(x is not r and _exact(x.mu, r.mu) and _exact(x.sigma, r.sigma) and x.name == r.name and x.id == r.id
                          for x in (c, c2))
                if okc:
                    c.sigma = 777.0
                    okc = _exact(r.sigma, r0.sigma)
                if not okc:
                    ctx.violation("deepcopy/subclass-instance", "ctor", payload,
                                  dict(subclass=type(r).__name__, orig=[repr(r0.mu), repr(r0.sigma), r0.name, r.id],
                                       copy=[repr(c.mu), repr(c.sigma), c.name, c.id], original_after_editing_copy=repr(r.sigma)),
                                  model_name, "subclass")
            except Exception as e:  # noqa: BLE001
                ctx.violation("deepcopy/exception", "ctor", payload, dict(subclass=which, exc=repr(e)), model_name, "subclass")
    # a stored SNAPSHOT of a player next to that player's current rating (same id, different numbers: match archives, undo
    # buffers) in one nested container: one deepcopy call must preserve each object's own values (seeded C20-M memoised
    # the copy under the player's id)
    if len(made) >= 2:
        ctx.ev("deepcopy")
        ctx.ev("deepcopy/snapshot-beside-current")
        try:
            snap = copy.deepcopy(made[0])
            cur = copy.deepcopy(made[0])
            cur.mu, cur.sigma, cur.name = float(made[0].mu) + 1.25, float(made[0].sigma) * 0.5 + 0.125, "current"
            for cont in ([[snap, made[1]], [cur]], [[cur], [made[1], snap]], [snap, cur], {"then": [snap], "now": [cur]}):
                d = copy.deepcopy(cont)
                flat = (lambda c: [p for t in (c.values() if isinstance(c, dict) else c) for p in (t if isinstance(t, list) else [t])])
                for c, o in zip(flat(d), flat(cont)):
                    if c is o or c.id != o.id or c.name != o.name or not _exact(c.mu, o.mu) or not _exact(c.sigma, o.sigma):
                        ctx.violation("deepcopy/snapshot-beside-current", "ctor", payload,
                                      dict(container=type(cont).__name__, orig=[repr(o.mu), repr(o.sigma), o.name, o.id],
                                           copy=[repr(c.mu), repr(c.sigma), c.name, c.id], same_object=c is o), model_name, "snapshot")
                        break
        except Exception as e:  # noqa: BLE001
            ctx.violation("deepcopy/exception", "ctor", payload, dict(exc=repr(e)), model_name, "snapshot")
    if len(made) >= 4:
        nested = [[made[0], made[1]], [made[2]], [made[3], made[0]]]
        ctx.ev("deepcopy")
        d = copy.deepcopy(nested)
        flat_o = [p for t in nested for p in t]
        flat_c = [p for t in d for p in t]
        bad = [len(t) for t in d] != [2, 1, 2] or any(
            c is o or c.id != o.id or c.name != o.name or not _exact(c.mu, o.mu) or not _exact(c.sigma, o.sigma)
            for c, o in zip(flat_c, flat_o))
        if bad:
            ctx.violation("deepcopy/nested", "ctor", payload, dict(ids=[[p.id for p in t] for t in d]), model_name, "nested")
        # the copy must be independent: mutating it leaves the original alone
        if not bad:
            flat_c[0].mu = 12345.0
            if made[0].mu == 12345.0 and not _exact(made[0].mu, flat_o[0].mu):
                ctx.violation("deepcopy/aliasing", "ctor", payload, {}, model_name, "nested")
    ctx.bucket("class", kind)
    if len(ctx.samples) < 2 and ctx.rng.random() < 0.02:
        ctx.sample(dict(kind="ctor", model=model_name, items=payload["items"][:8]))


def _ser(x, mode):
    """store a number the way applications do, and read it back"""
    if isinstance(x, float):
        return float.fromhex(x.hex()) if mode == 0 else float(repr(x))
    return x


def probe_league(ctx, payload):
    model_name = payload["model"]
    stop_at = payload.get("stop_at")
    trace = []

    def preds(model, teams):
        out = []
        for op in ("predict_win", "predict_draw", "predict_rank"):
            o = observe(model, op, teams)
            if o.exc is not None:
                out.append(("exc", type(o.exc).__name__))
            elif op == "predict_draw":
                out.append([float(o.res).hex()])
            elif op == "predict_win":
                out.append([float(x).hex() for x in o.res])
            else:
                out.append([(r, float(p).hex()) for r, p in o.res])
        return out

    def on_a(step, model, teams, kw, prior, call):
        pr = preds(model, teams)
        o = observe(model, "rate", teams, **kw)
        if o.exc is not None:
            trace.append(("exc", type(o.exc).__name__))
            return None
        trace.append((pr, [[(float(p.mu).hex(), float(p.sigma).hex()) for p in t] for t in o.res]))
        if stop_at is not None and step >= stop_at:
            return None
        return o.res

    league.league(payload, on_a)
    state = dict(n=0, bad=False)

    def on_b(step, model, teams, kw, prior, call):
        if step >= len(trace):
            return None
        pr = preds(model, teams)
        o = observe(model, "rate", teams, **kw)
        ctx.ev("league/step")
        reg = f"league/{payload['mode']}"
        if o.exc is not None:
            got = ("exc", type(o.exc).__name__)
        else:
            got = (pr, [[(float(p.mu).hex(), float(p.sigma).hex()) for p in t] for t in o.res])
        if got != trace[step]:
            what = "predictions" if (got[0] != trace[step][0]) else "ratings"
            ctx.violation("league/restored-differs", "league", dict(payload, stop_at=step),
                          dict(step=step, what=what, restored=repr(got[1] if what == "ratings" else got[0])[:300],
                               original=repr(trace[step][1] if what == "ratings" else trace[step][0])[:300]), model_name, reg)
            state["bad"] = True
            return None
        ctx.case([payload["seed"], step, model_name], step >= 1)
        state["n"] += 1
        if o.exc is not None:
            return None
        # restore: serialise to (mu, sigma) and rebuild, alternating the two constructors and the two text forms
        out = []
        for ti, t in enumerate(o.res):
            row = []
            for pi, p in enumerate(t):
                mode = (step + ti + pi) % 2
                mu, sg = _ser(p.mu, mode), _ser(p.sigma, 1 - mode)
                if (step + pi) % 2 == 0:
                    row.append(model.create_rating([mu, sg], p.name))
                else:
                    row.append(model.rating(mu, sg, p.name))
            out.append(row)
        return out

    league.league(payload, on_b)
    ctx.bucket("league_steps", f"{KIND[model_name]}/{payload['mode']}", state["n"])
    if len(ctx.samples) < 4:
        ctx.sample(dict(kind="league", params=payload, steps_compared=state["n"], identical=not state["bad"]))


PROBES = {"ctor": probe_ctor, "league": probe_league}
