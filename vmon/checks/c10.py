"""C10 - predict_draw is a probability, symmetric, and largest for evenly matched teams."""
import math

from ..predprobe import gen_pred_case, call_pred, in01, alias_clause, inplace_clause, team_mu
from ..rateprobe import exc_detail
from ..util import KIND, EPS

PROPERTY = "C10"
PYTEST_PREFIX = "C10/"
TECHNIQUE = "runtime monitoring: contract monitor + shadow executions (permutation, widening gap, equalised teams)"
LEVEL = "exploration"
RULE = ("Contract + shadow executions on the real predict_draw: value in [0,1] (4 ulp); invariant under a random "
        "permutation of teams and of players within teams (1e-12); two teams: moving one member's mu outward in 6 "
        "geometric steps gives a non-increasing sequence (8 ulp); n teams: shifting one member per team so that all team "
        "mu are equal (sigmas untouched) never lowers the value (8 ulp). Workload includes sigma at 1e-4beta, two "
        "identical single-player teams (value near its maximum) and teams of 8. Non-trivial: value in (1e-12, 1-1e-12) so "
        "no clause is saturated; distinct by canonical hash.")
ASSUMPTIONS = ["8 ulp slack on monotonicity clauses, 1e-12 absolute on order independence"]
REACH = ["predict_draw", "phi_major_inverse", "phi_major"]


def floors(tier):
    q = tier == "quick"
    return {"range": 10000 if q else 1600000, "permutation": 10000 if q else 1600000, "two-team-gap": 15000 if q else 2400000,
            "equalise": 6000 if q else 960000}


def generate(ctx):
    n = ctx.budget(16000, 2400000)
    for _ in range(n):
        r = ctx.rng.random()
        if r < 0.1:
            case, meta = gen_pred_case(ctx.rng, regime="identical", kmax=2, pmax=1)
        elif r < 0.4:
            case, meta = gen_pred_case(ctx.rng, kmax=2)
        else:
            case, meta = gen_pred_case(ctx.rng)
        k = len(case["teams"])
        perm = list(range(k))
        ctx.rng.shuffle(perm)
        pp = []
        for i in perm:
            p = list(range(len(case["teams"][i])))
            ctx.rng.shuffle(p)
            pp.append(p)
        yield "pd", dict(case=case, meta=meta, perm=perm, pperm=pp, who=[ctx.rng.randrange(len(t)) for t in case["teams"]],
                         step0=10 ** ctx.rng.uniform(-3, 0.5))
    # configuration lattice for the supremum of the two-team form (complete in both tiers, sharded): two level teams of
    # (nearly) certain players under every combination of skill unit, beta multiplier and kappa - incl. kappa far above beta
    # (unit 1e-3 with kappa 1e-2), where a margin or variance floor borrowed from rate() would push the value out of [0, 1]
    from ..util import MODEL_NAMES as _MN

    idx = 0
    for m_ in _MN:
        for scale in (1e-3, 1e-2, 1.0, 1e3):
            for bm in (0.25, 1.0, 3.0):
                for kappa in (1e-6, 1e-4, 1e-2):
                    for n_ in (1, 2):
                        idx += 1
                        if idx % ctx.nshards != ctx.shard:
                            continue
                        beta = 25.0 / 6.0 * scale * bm
                        cfg = dict(mu=25.0 * scale, sigma=25.0 / 3.0 * scale, beta=beta, kappa=kappa, tau=25.0 / 300.0 * scale,
                                   limit_sigma=False, gamma="default")
                        sg = ctx.rng.choice([0.0, 1e-9 * beta, 1e-4 * beta])
                        teams = [[[6.0 * beta / n_, sg, f"l{i}_{j}"] for j in range(n_)] for i in range(2)]
                        case = dict(model=m_, cfg=cfg, teams=teams, sel=None, vals=None, call={})
                        yield "pd", dict(case=case, meta=dict(regime="vanishing_sigma", k=2), perm=[1, 0],
                                         pperm=[list(range(n_)), list(range(n_))], who=[0, 0], step0=0.1)


def probe_pd(ctx, payload):
    case, meta = payload["case"], payload["meta"]
    model, kind = case["model"], KIND[case["model"]]
    teams = case["teams"]
    k = len(teams)
    beta = case["cfg"]["beta"]
    reg = f"{meta['regime']}/n={'2' if k == 2 else '3+'}"
    o = call_pred(case, "predict_draw")
    if o.exc is not None:
        ctx.ev("no-return")
        ctx.violation("no-return", "pd", payload, dict(exc=exc_detail(o.exc)), model, reg)
        return
    d = o.res
    ctx.bucket("n_teams", k)
    ctx.bucket("regime", meta["regime"])
    ctx.ev("range")
    if not in01(d):
        ctx.violation("range", "pd", payload, dict(result=repr(d)), model, reg)
        return
    ctx.frac("max_value_seen", d)
    if meta["regime"] == "vanishing_sigma" and k == 2:
        # the supremum of the two-team form: two level teams of (nearly) certain players, value 1 up to rounding.  The
        # rounding depends on mu/beta, so the level mu is swept over the box: every value must come back, inside [0, 1]
        n_ = len(teams[0])
        for i in range(40):
            mu_i = (-20.0 + i + 0.3719 * ((i * 7) % 5)) * beta / n_ if i < 40 else 0.0
            tl = [[[mu_i, p[1], p[2]] for p in t] for t in teams[:1]] * 2
            tl[1] = [[p[0], p[1], "m" + p[2]] for p in tl[0]]
            oi = call_pred(case, "predict_draw", tl)
            ctx.ev("range/level-certain-players")
            if oi.exc is not None:
                ctx.violation("no-return", "pd", payload, dict(level_mu=mu_i, sigma=[p[1] for p in tl[0]], exc=exc_detail(oi.exc)), model, reg)
                break
            if not in01(oi.res):
                ctx.violation("range", "pd", payload, dict(level_mu=mu_i, sigma=[p[1] for p in tl[0]], result=repr(oi.res)), model, reg)
                break
            ctx.frac("level_certain_excess_over_1/ulp", max(oi.res - 1.0, 0.0) / 2.220446049250313e-16)
    alias_clause(ctx, "pd", payload, case, "predict_draw", d, model, reg)
    inplace_clause(ctx, "pd", payload, case, "predict_draw", model, reg)
    perm, pp = payload["perm"], payload["pperm"]
    t2 = [[teams[i][j] for j in pj] for i, pj in zip(perm, pp)]
    o2 = call_pred(case, "predict_draw", t2)
    ctx.ev("permutation")
    if o2.exc is not None or not isinstance(o2.res, float) or abs(o2.res - d) > 1e-12:
        ctx.violation("permutation", "pd", payload, dict(base=d, permuted=repr(o2.res), perm=perm,
                                                         exc=exc_detail(o2.exc) if o2.exc else None), model, reg)
    elif isinstance(o2.res, float):
        ctx.frac("perm_diff/1e-12", abs(o2.res - d) / 1e-12)
    who = payload["who"]
    if k == 2:
        th = team_mu(teams)
        hi = 0 if th[0] >= th[1] else 1
        seq = [d]
        step = payload["step0"] * beta
        for s in range(6):
            t3 = [[list(p) for p in t] for t in teams]
            t3[hi][who[hi]][0] = teams[hi][who[hi]][0] + step
            step *= 3
            o3 = call_pred(case, "predict_draw", t3)
            ctx.ev("two-team-gap")
            if o3.exc is not None or not isinstance(o3.res, float):
                ctx.violation("two-team-gap", "pd", payload, dict(exc=exc_detail(o3.exc) if o3.exc else repr(o3.res)), model, reg)
                break
            if o3.res > seq[-1] + 8 * EPS:
                ctx.violation("two-team-gap", "pd", payload, dict(sequence=seq + [o3.res], widened_team=hi), model, reg)
                break
            seq.append(o3.res)
    # equalise all team mu by shifting one member per team
    th = team_mu(teams)
    target = th[0]
    t4 = [[list(p) for p in t] for t in teams]
    for i in range(k):
        t4[i][who[i]][0] = teams[i][who[i]][0] + (target - th[i])
    th4 = team_mu(t4)
    if max(abs(x - target) for x in th4) <= 16 * EPS * max(1.0, max(abs(x) for x in th) + abs(target)) * 8:
        o4 = call_pred(case, "predict_draw", t4)
        ctx.ev("equalise")
        if o4.exc is not None or not isinstance(o4.res, float):
            ctx.violation("equalise", "pd", payload, dict(exc=exc_detail(o4.exc) if o4.exc else repr(o4.res)), model, reg)
        else:
            # the equalised teams are equal only up to rounding of the shifted mu: allow the sensitivity of the band
            # probability to that rounding (<= 1 per unit of (delta mu)/s, s >= sqrt(2) beta)
            slack = 8 * EPS + max(abs(x - target) for x in th4) / beta
            if o4.res < d - slack:
                ctx.violation("equalise", "pd", payload, dict(original=d, equalised=o4.res, slack=slack), model, reg)
    else:
        ctx.skip("equalise")
    nt = 1e-12 < d < 1 - 1e-12
    ctx.case(case, nt)
    if nt and len(ctx.samples) < 3 and ctx.rng.random() < 0.01:
        ctx.sample(dict(case=case, predict_draw=d, permuted=o2.res))


PROBES = {"pd": probe_pd}
