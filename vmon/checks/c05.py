"""C05 - direction of learning: winning never costs mu, losing never earns it."""
import math

from .. import gen, tol
from ..rateprobe import run_case, reference, common_buckets, exc_detail
from ..util import KIND, EPS, MODEL_NAMES

PROPERTY = "C05"
TECHNIQUE = "runtime monitoring: contract monitor + shadow executions (win/draw/loss, exchange of places, identical teams)"
LEVEL = "exploration"
RULE = ("Contract + shadow executions on the real rate(): (a) sole first never loses mu / sole last never gains; "
        "(b) team members move in one direction with dmu_j/(sigma_j^2+tau^2) constant; (c) two teams rated under win, "
        "draw and loss for the same priors: loss<=draw<=win, loss<=prior<=win, draw does not raise the stronger or lower "
        "the weaker team beyond the TM draw-margin term; (d) no ties, PL/full models, k>=3: exchanging places with a "
        "better-placed team never lowers mu; (e) identical teams in a random strict order end ordered by place (strictly "
        "for PL/full unless the reference gap is below 64 eps|mu|). The mismatch regime (5-8.5 sigma gaps) is "
        "over-weighted. Non-trivial: the clause's hypothesis holds and some |dmu| exceeds its rounding allowance.")
ASSUMPTIONS = ["rounding allowance T5: 4 eps (|mu_prior|+|mu_post|) on every mu difference read off outputs",
               "TM draw allowance 2*(sigma_j^2+tau^2)*kappa/c^2 with c^2 = s_i^2+s_q^2+2beta^2 (upper bound for both TM models)"]
REACH = ["_compute", "i_map", "od_reduce", "v", "vt", "w", "wt"]


def floors(tier):
    q = tier == "quick"
    return {"a/first": 1500 if q else 750000, "a/last": 1500 if q else 750000, "b/share": 20000 if q else 10000000,
            "c/order": 3000 if q else 1500000, "c/draw": 3000 if q else 1500000, "d/exchange": 1500 if q else 750000,
            "e/identical": 1500 if q else 750000}


def generate(ctx):
    idx = 0
    for rep in range(1 if ctx.tier == "quick" else 12):
        for m_ in MODEL_NAMES:
            for k_ in (5, 6, 7, 8):
                idx += 1
                if idx % ctx.nshards == ctx.shard:
                    # every tie-group composition of k_ teams x systematic team-size patterns
                    for case, meta in gen.shape_cases(ctx.rng, m_, k_):
                        yield "ab", dict(case=case, meta=meta)
    n = ctx.budget(9000, 3750000)
    for it in range(n):
        m = ctx.rng.random()
        if m < 0.45:  # general games: clauses a, b
            regime = ctx.rng.choice(["round_numbers", "coincidences", "mismatch", "mismatch", "mismatch", "typical", "wide", "huge_sigma", "tiny_sigma",
                                     "corners", "equal_size"])
            # every encoding of the outcome (ints, floats, huge values, scores): the clauses are about the weak order
            case, meta = gen.gen_case(ctx.rng, regime=regime)
            yield "ab", dict(case=case, meta=meta)
        elif m < 0.65:  # two teams, three outcomes
            regime = ctx.rng.choice(["round_numbers", "coincidences", "mismatch", "mismatch", "typical", "wide", "huge_sigma", "tiny_sigma", "identical"])
            case, meta = gen.gen_case(ctx.rng, regime=regime, kmax=2, int_only=True)
            enc, style = gen.encode_levels(ctx.rng, [0, 1])
            yield "wdl", dict(case=case, meta=meta, enc=enc, as_scores=ctx.rng.random() < 0.3)
        elif m < 0.85:  # exchange of places
            model = ctx.rng.choice(["PlackettLuce", "BradleyTerryFull", "ThurstoneMostellerFull"])
            regime = ctx.rng.choice(["mismatch", "mismatch", "typical", "wide", "equal_size"])
            case, meta = gen.gen_case(ctx.rng, model=model, regime=regime, kmin=3, int_only=True)
            k = len(case["teams"])
            lv = list(range(k))
            ctx.rng.shuffle(lv)
            case["sel"], case["vals"] = "ranks", lv
            i = ctx.rng.randrange(k)
            while lv[i] == 0:
                i = ctx.rng.randrange(k)
            better = [q for q in range(k) if lv[q] < lv[i]]
            b = ctx.rng.choice(better)
            yield "exch", dict(case=case, meta=dict(meta, levels=lv, ties="none"), i=i, b=b)
        else:  # identical teams, strict order
            case, meta = gen.gen_case(ctx.rng, regime="identical", int_only=True)
            k = len(case["teams"])
            lv = list(range(k))
            ctx.rng.shuffle(lv)
            case["sel"], case["vals"] = "ranks", lv
            yield "ident", dict(case=case, meta=dict(meta, levels=lv, ties="none"))


def _fail(ctx, kind, payload, run, model, reg):
    ctx.ev("no-return")
    ctx.violation("no-return", kind, payload, dict(exc=exc_detail(run.exc) if run.exc else run.shape_err), model, reg)


def _round(mu0, mu1):
    return 4 * EPS * (abs(mu0) + abs(mu1))


def probe_ab(ctx, payload):
    case, meta = payload["case"], payload["meta"]
    model, kind = case["model"], KIND[case["model"]]
    run = run_case(case)
    if run.exc is not None or run.shape_err:
        return _fail(ctx, "ab", payload, run, model, meta.get("regime"))
    common_buckets(ctx, run, meta)
    lv = meta["levels"]
    k = len(lv)
    nt = False
    for i in range(k):
        first = lv[i] == min(lv) and lv.count(lv[i]) == 1
        last = lv[i] == max(lv) and lv.count(lv[i]) == 1
        ratios = []
        signs = set()
        for j, ((mu0, s0, _, _), (mu1, s1)) in enumerate(zip(run.pri[i], run.res[i])):
            d = mu1 - mu0
            rd = _round(mu0, mu1)
            if first:
                ctx.ev("a/first")
                if d < -rd:
                    ctx.violation("a/first", "ab", payload, dict(slot=[i, j], dmu=d, allowance=rd), model,
                                  f"{meta['regime']}/{meta['ties']}")
            if last:
                ctx.ev("a/last")
                if d > rd:
                    ctx.violation("a/last", "ab", payload, dict(slot=[i, j], dmu=d, allowance=rd), model,
                                  f"{meta['regime']}/{meta['ties']}")
            if abs(d) > rd:
                signs.add(d > 0)
                nt = nt or (first or last)
            var = s0 * s0 + run.tau * run.tau
            ratios.append((d / var, rd / var, abs(d)))
        if len(ratios) >= 2:
            ctx.ev("b/share", len(ratios))
            if len(signs) > 1:
                ctx.violation("b/direction", "ab", payload, dict(team=i, dmu=[r[2] for r in ratios]), model, meta["regime"])
            lo = min(r[0] for r in ratios)
            hi = max(r[0] for r in ratios)
            allow = tol.R * max(abs(lo), abs(hi)) + 2 * max(r[1] for r in ratios)
            ctx.frac("b/share", (hi - lo) / allow if allow > 0 else 0)
            if hi - lo > allow:
                ctx.violation("b/share", "ab", payload, dict(team=i, ratios=[r[0] for r in ratios], allowance=allow),
                              model, meta["regime"])
            if max(r[2] for r in ratios) > 10 * max(r[1] * (s0 * s0 + run.tau ** 2) for r in ratios):
                nt = True
    ctx.bucket("clause_ab_by_model", kind)
    ctx.case(case, nt)
    if nt and len(ctx.samples) < 2 and ctx.rng.random() < 0.01:
        ctx.sample(dict(kind="ab", case=case, result=run.res))


def probe_wdl(ctx, payload):
    case, meta = payload["case"], payload["meta"]
    model, kind = case["model"], KIND[case["model"]]
    outs = {}
    lo, hi = (payload.get("enc") or [0, 1])
    for name, ranks in (("win", [lo, hi]), ("draw", [lo, lo]), ("loss", [hi, lo])):
        c2 = dict(case)
        c2["sel"], c2["vals"] = "ranks", ranks
        if payload.get("as_scores"):
            c2["sel"], c2["vals"] = "scores", [(-int(v) if isinstance(v, bool) else -v) for v in ranks]
        r = run_case(c2)
        if r.exc is not None or r.shape_err:
            return _fail(ctx, "wdl", payload, r, model, meta.get("regime"))
        outs[name] = r
    run = outs["win"]
    common_buckets(ctx, run, meta)
    th = [math.fsum(p[0] for p in t) for t in case["teams"]]
    s2 = [math.fsum(p[1] ** 2 + run.tau ** 2 for p in t) for t in case["teams"]]
    c2min = s2[0] + s2[1] + 2 * run.cfg["beta"] ** 2
    gapsd = abs(th[0] - th[1]) / math.sqrt(c2min)
    ctx.bucket("wdl_gap_in_sd", f"{kind}/{min(9, int(gapsd))}+")
    nt = False
    for i in (0, 1):
        for j, (mu0, s0, _, _) in enumerate(run.pri[i]):
            # team 0's view: 'win' run has team 0 first; for team 1 the roles are swapped
            w_ = outs["win" if i == 0 else "loss"].res[i][j][0]
            d_ = outs["draw"].res[i][j][0]
            l_ = outs["loss" if i == 0 else "win"].res[i][j][0]
            rd = 4 * EPS * (abs(mu0) + max(abs(w_), abs(d_), abs(l_)))
            ctx.ev("c/order")
            if not (l_ <= d_ + rd and d_ <= w_ + rd and l_ <= mu0 + rd and mu0 <= w_ + rd):
                ctx.violation("c/order", "wdl", payload, dict(slot=[i, j], loss=l_, draw=d_, win=w_, prior=mu0,
                                                              allowance=rd), model, f"gap{min(9, int(gapsd))}")
            ctx.ev("c/draw")
            var = s0 * s0 + run.tau ** 2
            allow = rd + (2 * var * run.cfg["kappa"] / c2min if kind in ("TMF", "TMP") else 0.0)
            stronger = th[i] > th[1 - i]
            weaker = th[i] < th[1 - i]
            if (stronger and d_ - mu0 > allow) or (weaker and mu0 - d_ > allow):
                ctx.violation("c/draw", "wdl", payload, dict(slot=[i, j], draw=d_, prior=mu0, stronger=stronger,
                                                             allowance=allow), model, f"gap{min(9, int(gapsd))}")
            if w_ - l_ > 10 * rd:
                nt = True
    ctx.case(case, nt)
    if nt and len(ctx.samples) < 4 and ctx.rng.random() < 0.02:
        ctx.sample(dict(kind="wdl", case=case, win=outs["win"].res, draw=outs["draw"].res, loss=outs["loss"].res))


def probe_exch(ctx, payload):
    case, meta, i, b = payload["case"], payload["meta"], payload["i"], payload["b"]
    model, kind = case["model"], KIND[case["model"]]
    base = run_case(case)
    c2 = dict(case)
    v = list(case["vals"])
    v[i], v[b] = v[b], v[i]
    c2["vals"] = v
    sw = run_case(c2)
    for r in (base, sw):
        if r.exc is not None or r.shape_err:
            return _fail(ctx, "exch", payload, r, model, meta.get("regime"))
    common_buckets(ctx, base, meta)
    nt = False
    for j, (mu0, s0, _, _) in enumerate(base.pri[i]):
        a, c = base.res[i][j][0], sw.res[i][j][0]
        rd = 4 * EPS * (abs(mu0) + max(abs(a), abs(c))) + tol.R * max(abs(a - mu0), abs(c - mu0))
        ctx.ev("d/exchange")
        if c < a - rd:
            ctx.violation("d/exchange", "exch", payload, dict(slot=[i, j], before=a, after_exchange=c, allowance=rd),
                          model, meta["regime"])
        if c - a > 10 * rd:
            nt = True
    ctx.bucket("clause_d_by_model", f"{kind}/k={len(case['teams'])}")
    ctx.case(dict(c=case, i=i, b=b), nt)


def probe_ident(ctx, payload):
    case, meta = payload["case"], payload["meta"]
    model, kind = case["model"], KIND[case["model"]]
    run = run_case(case)
    if run.exc is not None or run.shape_err:
        return _fail(ctx, "ident", payload, run, model, "identical")
    common_buckets(ctx, run, meta)
    lv = meta["levels"]
    k = len(lv)
    order = sorted(range(k), key=lambda t: lv[t])
    ref = None
    strict_models = kind in ("PL", "BTF", "TMF")
    nt = False
    for a, b in zip(order, order[1:]):  # a placed better than b
        for j in range(len(case["teams"][a])):
            ma, mb = run.res[a][j][0], run.res[b][j][0]
            ctx.ev("e/identical")
            if ma < mb:
                ctx.violation("e/identical", "ident", payload, dict(better=[a, j, ma], worse=[b, j, mb]), model, kind)
            elif ma == mb and strict_models:
                if ref is None:
                    ref, _ = reference(run)
                gap = ref[a][j]["mu"] - ref[b][j]["mu"]
                if gap > 64 * EPS * abs(ma):
                    ctx.violation("e/identical-strict", "ident", payload,
                                  dict(better=[a, j, ma], worse=[b, j, mb], reference_gap=float(gap)), model, kind)
                else:
                    ctx.count("e_rounding_limited")
            if ma > mb:
                nt = True
    ctx.bucket("clause_e_by_model", f"{kind}/k={k}")
    ctx.case(case, nt)


PROBES = {"ab": probe_ab, "wdl": probe_wdl, "exch": probe_exch, "ident": probe_ident}
