"""C14 - stateless calls: results independent of call history, identity and interleaving."""
import json
import os
import random
import subprocess
import sys

from .. import gen, league
from ..attach import observe, attrs_changed, install_taps
from ..rateprobe import exc_detail
from ..util import KIND, MODEL_NAMES, VERIF, digest_floats, models
from ..verdict import Inconclusive

PROPERTY = "C14"
PYTEST_PREFIX = "C14/"
LEVEL = "exploration"
RULE = ("(i) frame monitor around every call: __setattr__/__delattr__ tap on the five model classes (armed for the live "
        "model object between entry and exit), model.__dict__ snapshots (openskill.* module globals are snapshotted too, informational); (ii)/(iii) "
        "history-free oracle: sequences of 5-50 mixed rate/predict calls with random per-call tau/limit_sigma on one "
        "long-lived model, every call re-run on a fresh identically constructed model with fresh rating objects and "
        "compared bit for bit, with every returned container edited in place after its numbers were read, outcome lists REUSED as the same list object between calls of a sequence (the oracle gets "
        "a fresh list of the original values), ids overwritten (sorted/reversed/equal strings), names permuted; plus feedback "
        "sequences in which the SAME rating objects are rated again and again (10-120 steps) and every call is compared with "
        "the history-free result for the values the objects held before it; (iv) the same seeded "
        "workload run in subprocesses under several PYTHONHASHSEED values, SHA-256 digests of all returned floats "
        "compared; (iv-b) PROCESS-ORDER independence: one deterministic list of 1500/20000 calls, each on its own "
        "freshly constructed model (many configurations, few distinct team and player counts), executed forward, reversed "
        "and shuffled in SEPARATE processes, per-call digests compared - a cache shared between model instances poisons the "
        "in-process history-free oracle as well, only a different process history shows it; (v) schedule monitor: 4-8 real threads x 6-10 calls through one shared model on disjoint ratings, "
        "sys.monitoring LINE events log (thread, function, line) and inject time.sleep(0) at statement boundaries with "
        "p in {0.01,0.05,0.2}, switch interval 1e-5 s; each call compared bit for bit with its history-free result; and a "
        "SYSTEMATIC single-preemption sweep: for pairs of conflicting calls (A, B) thread A is suspended at every distinct "
        "statement boundary it passes through (plus sampled later loop iterations), B runs to completion on the same model, A "
        "resumes - every interleaving with one preemption of A at statement granularity, both results compared bit for bit; the same sweep from a COLD start (the library freshly imported before every run, so that the first-use publication of lazily built module-level state is inside the race; afterwards the calls are repeated one after another in the state the race left behind). "
        "(vi) RE-ENTRANT use: a gamma callback that itself calls rate/predict on the same model while the outer call is in progress and returns 1/k - the outer result must equal, bit for bit, that of a model with the plain 1/k callback, and every inner call its history-free result. Non-trivial: a call preceded (sequentially or concurrently) by a call with different per-call options; "
        "distinct by hash of (sequence, position) / (round, thread, position).")
ASSUMPTIONS = ["thread interleavings are sampled, not enumerated; the write tap detects the mechanism of schedule "
               "dependence on every execution", "custom gamma callbacks used here are pure functions"]
REACH = ["rate", "_compute", "predict_win", "predict_draw", "predict_rank"]
SHARDS = {"quick": 14, "thorough": 16}
TECHNIQUE = "runtime monitoring: attribute-write tap + history-free shadow execution (in-process and across processes) + thread schedule monitor (random yield injection, systematic single-preemption sweep from warm and from cold start) + failing calls inside histories + re-entrant use from a gamma callback"


def floors(tier):
    q = tier == "quick"
    return {"frame/no-write": 6000 if q else 600000, "history-free": 6000 if q else 600000,
            "history-free/feedback": 4000 if q else 400000, "history-free/after-failing-call": 300 if q else 30000,
            "threads/call": 1500 if q else 160000, "preempt/run": 3000 if q else 200000, "cold-preempt/run": 100 if q else 30000, "reentrant/outer==plain": 500 if q else 40000, "hashseed/digest": 3 if q else 5,
            "process-order/call": 2000 if q else 60000}


# ------------------------------------------------------------------------------------------- workload
REJECTS = ["foreign_last", "none_first", "ranks_short", "ranks_str", "both", "teams_tuple", "one_team", "empty_team"]


def gen_ops(rng, cfg, nops, kmax=5, pmax=3, failing=0.0):
    """failing > 0: that share of the operations FAIL - a malformed call that is rejected, or (when the model's gamma is
    the 'boom' callback) a rate call in the middle of which the application's callback raises.  The calls after them must
    still return their history-free results."""
    ops = []
    pool = {}
    for _ in range(nops):
        teams, regime = gen.gen_teams(rng, cfg["beta"], kmax=kmax, pmax=pmax, default_rating=(cfg["mu"], cfg["sigma"]),
                                      regime=rng.choice(["typical", "wide", "mismatch", "equal_size", "huge_sigma", "identical", "round_numbers", "coincidences"]))
        if failing and rng.random() < failing:
            if str(cfg.get("gamma")).startswith("boom") and rng.random() < 0.5:
                i = rng.randrange(len(teams))
                teams[i] = [[teams[i][0][0] + 0.01 * j * cfg["beta"], teams[i][0][1], f"b{j}"] for j in range(5)]
                lv = gen.weak_order(rng, len(teams))
                sel, vals, _ = gen.outcome_kwargs(rng, lv, style="int")
                call = {}
                if rng.random() < 0.5:
                    call["tau"] = rng.choice([0, cfg["beta"], 10 * cfg["beta"]])
                if rng.random() < 0.5:
                    call["limit_sigma"] = rng.choice([True, False])
                ops.append(dict(op="boom", teams=teams, sel=sel, vals=vals, call=call))
            else:
                ops.append(dict(op="reject", how=rng.choice(REJECTS), teams=teams,
                                target=rng.choice(["rate", "rate", "predict_win", "predict_draw", "predict_rank"]),
                                call=rng.choice([{}, dict(tau=10 * cfg["beta"], limit_sigma=True)])))
            continue
        r = rng.random()
        if r < 0.6:
            k = len(teams)
            if k in pool and rng.random() < 0.5:
                sel, vals = pool[k]  # the same outcome as an earlier call of this sequence (a reused constant)
            else:
                lv = gen.weak_order(rng, k)
                sel, vals, _ = gen.outcome_kwargs(rng, lv)
                pool[k] = (sel, vals)
            call = {}
            if rng.random() < 0.5:
                call["tau"] = rng.choice([0, 0.0, 1e-3 * cfg["beta"], cfg["beta"], 10 * cfg["beta"]])
            if rng.random() < 0.5:
                call["limit_sigma"] = rng.choice([True, False])
            ops.append(dict(op="rate", teams=teams, sel=sel, vals=vals, call=call))
        else:
            if ops and ops[-1]["op"] != "rate" and rng.random() < 0.5:
                # the application asks several predictions about ONE game, passing the same list object each time
                ops.append(dict(op=rng.choice(["predict_win", "predict_draw", "predict_rank"]), teams=ops[-1]["teams"], same_list=True))
            else:
                ops.append(dict(op=rng.choice(["predict_win", "predict_draw", "predict_rank"]), teams=teams))
    return ops


def generate(ctx):
    n = ctx.budget(700, 48000)
    for _ in range(n):
        m = ctx.rng.choice(MODEL_NAMES)
        cfg = gen.gen_cfg(ctx.rng)
        # make the options matter: big tau so limit_sigma binds when on
        if ctx.rng.random() < 0.5:
            cfg["tau"] = cfg["beta"] * ctx.rng.choice([1, 3])
        failing = 0.0
        if ctx.rng.random() < 0.3:
            failing = 0.25
            if ctx.rng.random() < 0.6:
                cfg["gamma"] = ctx.rng.choice(["boom", "boom_type", "boom_type", "boom_key", "boom_value", "boom_attr"])
        ops = gen_ops(ctx.rng, cfg, ctx.rng.randint(5, 50 if ctx.tier == "thorough" else 25), failing=failing)
        if ctx.rng.random() < 0.1:
            cfg["_modelsub"] = True  # the long-lived model is an instance of an application-side subclass
        yield "seq", dict(model=m, cfg=cfg, ops=ops, idmode=ctx.rng.choice(["default", "sorted", "reversed", "equal", "swapnames", "samenames"]))
    for _ in range(ctx.budget(300, 24000)):
        m = ctx.rng.choice(MODEL_NAMES)
        cfg = league.league_cfg(ctx.rng, gen)
        cfg["tau"] = cfg["beta"] * ctx.rng.choice([0.02, 0.3, 1.0])
        if ctx.rng.random() < 0.25:
            cfg["gamma"] = ctx.rng.choice(["boom", "boom_type", "boom_key", "boom_value", "boom_attr"])  # the application's callback fails for some games (teams of five), in the middle of rate
        yield "fb", dict(model=m, cfg=cfg, players=ctx.rng.randint(6, 14), steps=ctx.rng.randint(10, 40 if ctx.tier == "quick" else 120),
                         seed=ctx.rng.randrange(2 ** 31), app_types=ctx.rng.random() < 0.25)
    for _ in range(ctx.budget(40, 2400)):
        m = ctx.rng.choice(MODEL_NAMES)
        cfg = gen.gen_cfg(ctx.rng)
        cfg["tau"] = cfg["beta"] * ctx.rng.choice([0.02, 1, 3])
        a, b = gen_ops(ctx.rng, cfg, 2, kmax=4, pmax=2)
        # make the two calls conflict on every per-call value: options, team count, player count
        if a["op"] == "rate":
            a["call"] = dict(tau=ctx.rng.choice([0, 3 * cfg["beta"]]), limit_sigma=True)
        if b["op"] == "rate":
            b["call"] = dict(tau=ctx.rng.choice([10 * cfg["beta"], 1e-3 * cfg["beta"]]), limit_sigma=False)
        yield "preempt", dict(model=m, cfg=cfg, a=a, b=b, extra=ctx.rng.randrange(2 ** 30))
    for _ in range(ctx.budget(600, 48000)):
        m = ctx.rng.choice(MODEL_NAMES)
        cfg = gen.gen_cfg(ctx.rng)
        cfg["tau"] = cfg["beta"] * ctx.rng.choice([0.02, 1, 3])
        outer = None
        while outer is None or outer["op"] != "rate":
            outer = gen_ops(ctx.rng, cfg, 1, kmax=5, pmax=3)[0]
        outer["call"] = dict(tau=ctx.rng.choice([0, 3 * cfg["beta"]]), limit_sigma=True) if ctx.rng.random() < 0.7 else {}
        inner = gen_ops(ctx.rng, cfg, ctx.rng.randint(1, 3), kmax=4, pmax=2)
        for op in inner:
            if op["op"] == "rate":
                op["call"] = dict(tau=10 * cfg["beta"], limit_sigma=False)
        yield "reenter", dict(model=m, cfg=cfg, outer=outer, inner=inner)
    combos = [(m_, k_) for m_ in MODEL_NAMES for k_ in ("predict_win", "predict_draw", "predict_rank", "rate")]
    ncold = 20 if ctx.tier == "quick" else ctx.budget(20, 1600) * ctx.nshards
    for ci in range(ctx.shard, ncold, ctx.nshards):
        # every (model, operation) combination in turn: first-use state is per code path, so the quick tier covers all 20
        # whatever the budget scale
        m, kind = combos[ci % len(combos)]
        cfg = gen.gen_cfg(ctx.rng)
        ops = []
        while len(ops) < 6:
            o = gen_ops(ctx.rng, cfg, 1, kmax=5, pmax=3)[0]
            if kind == "mixed" or o["op"] == kind:
                ops.append(o)
        a, b = ops[0], ops[1]
        if ctx.rng.random() < 0.5 and a["op"] != "rate":
            # the same number of teams in both calls (a table indexed by team count) but other players
            while len(b["teams"]) != len(a["teams"]) or b["op"] == "rate":
                b = gen_ops(ctx.rng, cfg, 1, kmax=5, pmax=3)[0]
            b = dict(b, op=a["op"])
        # follow-up calls made one after another in the state the race left behind: one game for every total player count
        # 2..13 (in 2..5 teams), so that whichever slot of a per-size table was corrupted is read afterwards
        follow = list(ops[2:4])
        for total in range(2, 14):
            k = ctx.rng.randint(2, min(5, total))
            cuts = sorted(ctx.rng.sample(range(1, total), k - 1))
            sizes = [b_ - a_ for a_, b_ in zip([0] + cuts, cuts + [total])]
            f = gen_ops(ctx.rng, cfg, 1, kmax=5, pmax=3)[0]
            while f["op"] != a["op"]:
                f = gen_ops(ctx.rng, cfg, 1, kmax=5, pmax=3)[0]
            proto = [p for t in f["teams"] for p in t]
            teams, n_ = [], 0
            for sz in sizes:
                teams.append([[proto[(n_ + j) % len(proto)][0], proto[(n_ + j) % len(proto)][1], f"u{n_ + j}"] for j in range(sz)])
                n_ += sz
            f = dict(f, teams=teams)
            if f["op"] == "rate":
                lv = gen.weak_order(ctx.rng, k)
                f["sel"], f["vals"], _ = gen.outcome_kwargs(ctx.rng, lv, style="int")
            follow.append(f)
        yield "cold", dict(model=m, cfg=cfg, a=a, b=b, follow=follow, extra=ctx.rng.randrange(2 ** 30))
    rounds = ctx.budget(60, 6000)
    for _ in range(rounds):
        m = ctx.rng.choice(MODEL_NAMES)
        cfg = gen.gen_cfg(ctx.rng)
        cfg["tau"] = cfg["beta"] * ctx.rng.choice([0.02, 1, 3])
        yield "threads", dict(model=m, cfg=cfg, T=ctx.rng.randint(4, 8), calls=ctx.rng.randint(6, 10),
                              seed=ctx.rng.randrange(2 ** 31), p=ctx.rng.choice([0.01, 0.05, 0.2]))


# ------------------------------------------------------------------------------------------- executing one op
def _mk_teams(model, op, idmode=None, tag=""):
    teams = [[model.rating(p[0], p[1], p[2]) for p in t] for t in op["teams"]]
    flat = [p for t in teams for p in t]
    if idmode == "sorted":
        for i, p in enumerate(flat):
            p.id = f"{tag}{i:04d}"
    elif idmode == "reversed":
        for i, p in enumerate(flat):
            p.id = f"{tag}{9999 - i:04d}"
    elif idmode == "equal":
        for p in flat:
            p.id = "same-id"
    elif idmode == "samenames":
        for p in flat:
            p.name = "guest"  # namesakes and placeholder names: results do not depend on names
    elif idmode == "swapnames":
        names = [p.name for p in flat][::-1]
        for p, nm in zip(flat, names):
            p.name = nm
    return teams


def _kw(op):
    kw = {}
    if op.get("sel"):
        kw[op["sel"]] = list(op["vals"])
    kw.update(op.get("call") or {})
    return kw


def _numbers(op, res):
    """flatten what a call returned into floats (positionally)"""
    if op["op"] == "rate":
        return [x for t in res for p in t for x in (p.mu, p.sigma)]
    if op["op"] == "predict_win":
        return list(res)
    if op["op"] == "predict_draw":
        return [res]
    return [x for pair in res for x in (float(pair[0]), pair[1])]


def run_failing(model, op, Ms):
    """a call that is expected to fail: returns (Obs, expected exception classes)"""
    teams = _mk_teams(model, op)
    if op["op"] == "boom":
        return observe(model, "rate", teams, **_kw(op)), (Exception,)
    how, target = op["how"], op["target"]
    kw = dict(op.get("call") or {}) if target == "rate" else {}
    n = len(teams)
    if how == "foreign_last":
        other = next(nm for nm in MODEL_NAMES if not isinstance(model, Ms[nm]))
        teams[-1][-1] = Ms[other]().rating(teams[-1][-1].mu, teams[-1][-1].sigma)
    elif how == "none_first":
        teams[0][0] = None
    elif how == "teams_tuple":
        teams = tuple(teams)
    elif how == "one_team":
        teams = teams[:1]
    elif how == "empty_team":
        teams[-1] = []
    elif target != "rate":
        teams[n // 2] = tuple(teams[n // 2])  # the selector faults only exist for rate
    elif how == "ranks_short":
        kw["ranks"] = list(range(n - 1)) or [1, 2, 3]
    elif how == "ranks_str":
        kw["scores"] = [str(i) for i in range(n)]
    elif how == "both":
        kw["ranks"] = list(range(n))
        kw["scores"] = list(range(n))
    return observe(model, target, teams, **kw), (TypeError, ValueError)


def run_op(model, op, idmode=None, tag="", watch_globals=False, consts=None):
    """consts: a per-sequence pool of outcome lists that the caller REUSES between calls (an application's
    `AWAY_WIN = [2, 1]` constant): the same list object is passed whenever the same outcome occurs again"""
    if op.get("same_list") and consts is not None and consts.get("__prev_teams__") is not None:
        teams = consts["__prev_teams__"]  # the very list object (and rating objects) of the previous predict call
    else:
        teams = _mk_teams(model, op, idmode, tag)
        if op["op"] != "rate" and consts is not None:
            # the subject passes teams with identical values as ONE list object in several slots; the oracle (consts is
            # None) gets separate lists: results must not depend on object identity
            first = {}
            for i, t in enumerate(op["teams"]):
                key = tuple((p[0], p[1]) for p in t)
                if key in first:
                    teams[i] = teams[first[key]]
                else:
                    first[key] = i
    if consts is not None:
        consts["__prev_teams__"] = teams if op["op"] != "rate" else None
    if op["op"] == "rate":
        kw = _kw(op)
        if consts is not None and op.get("sel"):
            key = (op["sel"], repr(op["vals"]))
            kw[op["sel"]] = consts.setdefault(key, kw[op["sel"]])
        o = observe(model, "rate", teams, watch_globals=watch_globals, **kw)
    else:
        o = observe(model, op["op"], teams, watch_globals=watch_globals)
    nums = None
    if o.exc is None:
        try:
            nums = _numbers(op, o.res)
            _scribble(o.res)
        except Exception as e:  # noqa: BLE001
            o.exc = e
    return o, nums


def _scribble(res):
    """what a caller may do with a returned container: edit it in place (the rating objects themselves are left alone).
    A call that hands out a shared list (a module constant, a cached result) is exposed by the next call that returns it."""
    if isinstance(res, list):
        for i, x in enumerate(res):
            if isinstance(x, list):
                x.append("scribbled")
            elif isinstance(x, (int, float, tuple)):
                res[i] = -12345.678
        res.append("scribbled")


def oracle(model_name, cfg, op, Ms=None):
    """history-free result: fresh model, fresh default-identity ratings, the same call"""
    m = league.make_model(model_name, cfg, Ms)
    o, nums = run_op(m, op)
    return o, nums


def _same(a, b):
    return a is not None and b is not None and len(a) == len(b) and all(
        float(x).hex() == float(y).hex() for x, y in zip(a, b))


# ------------------------------------------------------------------------------------------- probes
def probe_seq(ctx, payload):
    model_name, cfg, ops = payload["model"], payload["cfg"], payload["ops"]
    Ms = models()
    model = league.make_model(model_name, cfg, Ms)
    kind = KIND[model_name]
    prev_call = None
    consts = {}
    for pos, op in enumerate(ops):
        if op["op"] in ("reject", "boom"):
            # a FAILING call in the history: judged here only for what C14 states (no attribute of the model changes, by
            # any call); what it raises is C13's business.  The calls after it are compared with their history-free results.
            o, expected = run_failing(model, op, Ms)
            ctx.ev("frame/no-write")
            ctx.ev("history/failing-call")
            ctx.bucket("failing_calls", f"{op['op']}:{op.get('how', '')}:{type(o.exc).__name__ if o.exc is not None else 'returned'}")
            ch = attrs_changed(o)
            if o.writes or ch:
                ctx.violation("frame/model-write", "seq", payload,
                              dict(pos=pos, op=op["op"], how=op.get("how"), failing_call=True, writes=[w[:3] for w in o.writes[:5]],
                                   attrs_changed=ch[:5]), model_name, f"{op['op']}/failing")
            if o.exc is not None and isinstance(o.exc, expected):
                ctx.count("failing_calls_that_raised_as_expected")
            consts["__prev_teams__"] = None
            continue
        o, nums = run_op(model, op, payload["idmode"], tag=f"s{pos}-", watch_globals=(pos % 4 == 0), consts=consts)
        reg = f"{op['op']}/{payload['idmode']}"
        if o.exc is not None:
            ctx.ev("no-return")
            ctx.violation("no-return", "seq", payload, dict(pos=pos, exc=exc_detail(o.exc)), model_name, reg)
            return
        ctx.ev("frame/no-write")
        ch = attrs_changed(o)
        if o.writes or ch:
            ctx.violation("frame/model-write", "seq", payload,
                          dict(pos=pos, op=op["op"], call=op.get("call"), writes=[w[:3] for w in o.writes[:5]],
                               attrs_changed=ch[:5]), model_name, reg)
        if o.globals_changed:
            # informational only: the property forbids writes to the MODEL and history-dependent numbers; a pure memo
            # at module level is allowed, a harmful one is caught by the history-free oracle below
            ctx.count("module_globals_changed_events")
            g = ctx.notes.setdefault("module_globals_changed", [])
            for x in o.globals_changed[:3]:
                if list(x) not in g and len(g) < 10:
                    g.append(list(x))
        ctx.ev("history-free")
        o2, want = oracle(model_name, cfg, op, Ms)
        if not _same(nums, want):
            first = next((i for i, (x, y) in enumerate(zip(nums or [], want or [])) if float(x).hex() != float(y).hex()), None)
            ctx.violation("history-free", "seq", payload,
                          dict(pos=pos, op=op["op"], call=op.get("call"), previous_call=prev_call, first_diff_index=first,
                               got=(nums or [None])[first or 0], want=(want or [None])[first or 0], idmode=payload["idmode"]),
                          model_name, reg)
        nt = pos > 0 and (op.get("call") or {}) != (prev_call or {})
        if pos > 0 and ops[pos - 1]["op"] in ("reject", "boom"):
            ctx.ev("history-free/after-failing-call")
            nt = True
        ctx.case(dict(s=payload["ops"][0]["teams"][0][0], n=len(ops), p=pos, m=model_name), nt or payload["idmode"] != "default")
        ctx.bucket("op", op["op"])
        ctx.bucket("idmode", payload["idmode"])
        if op["op"] == "rate":
            prev_call = op.get("call") or {}
    if len(ctx.samples) < 2 and ctx.rng.random() < 0.05:
        ctx.sample(dict(kind="seq", model=model_name, cfg=cfg, idmode=payload["idmode"],
                        calls=[dict(op=o_["op"], call=o_.get("call"), n_teams=len(o_["teams"])) for o_ in ops[:12]]))


def probe_threads(ctx, payload):
    from .. import sched

    model_name, cfg = payload["model"], payload["cfg"]
    Ms = models()
    install_taps()
    model = league.make_model(model_name, cfg, Ms)
    rng = random.Random(payload["seed"])
    T, C = payload["T"], payload["calls"]
    plans = [gen_ops(rng, cfg, C, kmax=4, pmax=2) for _ in range(T)]
    # rating objects are created up front (disjoint per thread), calls happen under the schedule monitor
    prepared = [[(_mk_teams(model, op), op) for op in plan] for plan in plans]
    results = [[None] * C for _ in range(T)]

    def job(i):
        def run():
            for c, (teams, op) in enumerate(prepared[i]):
                if op["op"] == "rate":
                    o = observe(model, "rate", teams, **_kw(op))
                else:
                    o = observe(model, op["op"], teams)
                nums = None
                if o.exc is None:
                    try:
                        nums = _numbers(op, o.res)
                    except Exception as e:  # noqa: BLE001
                        o.exc = e
                results[i][c] = (o.exc, nums, list(o.writes), attrs_changed(o))
        return run

    rnd = sched.Round(payload["seed"], payload["p"])
    errors, hung = rnd.run([job(i) for i in range(T)])
    if errors or hung:
        raise Inconclusive(f"thread harness failure: {errors[:2]} hung={hung}")
    st = rnd.stats()
    ctx.count("thread_rounds")
    ctx.count("line_events", st["line_events"])
    ctx.count("thread_switches", st["switches"])
    ctx.count("rounds_with_inside_call_preemption", 1 if st["inside_points"] else 0)
    pts = ctx.notes.setdefault("switch_points", [])
    for fn, line in st["switch_points"]:
        key = f"{fn}:{line}"
        if key not in pts and len(pts) < 4000:
            pts.append(key)
    sigs = ctx.notes.setdefault("interleaving_signatures", [])
    if st["signature"] not in sigs and len(sigs) < 5000:
        sigs.append(st["signature"])
    ctx.bucket("yield_probability", payload["p"])
    ctx.bucket("threads", T)
    for i in range(T):
        for c, (teams, op) in enumerate(prepared[i]):
            exc, nums, writes, ch = results[i][c]
            reg = f"threads/{op['op']}"
            ctx.ev("threads/call")
            if exc is not None:
                ctx.violation("threads/no-return", "threads", payload, dict(thread=i, pos=c, exc=exc_detail(exc)), model_name, reg)
                continue
            if writes or ch:
                ctx.violation("threads/model-write", "threads", payload,
                              dict(thread=i, pos=c, call=op.get("call"), writes=[w[:3] for w in writes[:5]], attrs_changed=ch[:5]),
                              model_name, reg)
            _, want = oracle(model_name, cfg, op, Ms)
            if not _same(nums, want):
                ctx.violation("threads/result", "threads", payload,
                              dict(thread=i, pos=c, op=op["op"], call=op.get("call"), switches=st["switches"]), model_name, reg)
            ctx.case(dict(r=payload["seed"], t=i, c=c), True)
    if len(ctx.samples) < 4 and ctx.rng.random() < 0.2:
        ctx.sample(dict(kind="threads", model=model_name, T=T, calls_per_thread=C, p_yield=payload["p"],
                        line_events=st["line_events"], switches=st["switches"], signature=st["signature"],
                        distinct_switch_points=len(st["switch_points"])))


def probe_fb(ctx, payload):
    """feedback sequence: the SAME rating objects are rated again and again through one long-lived model (as an
    application does); every call is compared with the history-free result for the values the objects held before it"""
    model_name, cfg = payload["model"], payload["cfg"]
    Ms = models()
    model = league.make_model(model_name, cfg, Ms)
    rng = random.Random(payload["seed"])
    beta = cfg["beta"]
    pool = [model.rating(rng.gauss(6 * beta, 2 * beta), abs(rng.gauss(2 * beta, 0.5 * beta)) + 0.05 * beta, f"F{i}")
            for i in range(payload["players"])]
    if payload.get("app_types"):
        # the persistent objects are instances of application-side subclasses of the rating class (plain subclass, own
        # constructor signature, ORM-style entity with identity hashing): what is remembered per object or per line-up
        # must follow their CURRENT values
        from ..util import make_sub

        RC = type(pool[0])
        pool = [make_sub(RC, i % 3, p.mu, p.sigma, p.name) if i % 4 else p for i, p in enumerate(pool)]
        ctx.bucket("feedback_app_types", "subclass instances")
    prev_call = None
    after_fail = False
    for step in range(payload["steps"]):
        k = rng.choice([2, 2, 3, 4])
        sizes = [rng.choice([1, 1, 2]) for _ in range(k)]
        if sum(sizes) > len(pool):
            sizes = [1] * k
        idx = rng.sample(range(len(pool)), sum(sizes))
        tidx, pos = [], 0
        for sz in sizes:
            tidx.append(idx[pos:pos + sz])
            pos += sz
        teams = [[pool[i] for i in t] for t in tidx]
        vals = [[[p.mu, p.sigma, p.name] for p in t] for t in teams]
        r = rng.random()
        if str(cfg.get("gamma")).startswith("boom") and rng.random() < 0.12:
            # a FAILING step on the persistent objects: a malformed call, or a rate call whose callback raises half-way
            # (a team of five).  Whatever state the objects are left in is what the next steps start from (their values
            # are re-read), and those steps must return the history-free results for these values.
            if rng.random() < 0.5 and len(pool) >= 7:
                idx5 = rng.sample(range(len(pool)), 7)
                bteams = [[pool[i] for i in idx5[:5]], [pool[idx5[5]]], [pool[idx5[6]]]]
                rng.shuffle(bteams)
                o = observe(model, "rate", bteams, ranks=[rng.randrange(3) for _ in range(3)],
                            **rng.choice([{}, dict(limit_sigma=True), dict(tau=3 * beta)]))
                what = "boom"
            else:
                o = observe(model, rng.choice(["rate", "predict_win", "predict_draw", "predict_rank"]), teams + [[None]])
                what = "reject"
            ctx.ev("frame/no-write")
            ctx.ev("history/failing-call")
            ctx.bucket("failing_calls", f"feedback/{what}:{type(o.exc).__name__ if o.exc is not None else 'returned'}")
            ch = attrs_changed(o)
            if o.writes or ch:
                ctx.violation("frame/model-write", "fb", payload, dict(step=step, failing_call=what, writes=[w[:3] for w in o.writes[:5]],
                                                                      attrs_changed=ch[:5]), model_name, f"feedback/{what}")
            if what == "boom" and o.exc is None:
                # the callback did not fire (a refactor may call it differently): objects were rated normally, keep them
                pass
            after_fail = True
            continue
        if r < 0.7:
            lv = gen.weak_order(rng, k)
            sel, v, _ = gen.outcome_kwargs(rng, lv)
            call = {}
            if rng.random() < 0.6:
                call["limit_sigma"] = rng.choice([True, False])
            if rng.random() < 0.4:
                call["tau"] = rng.choice([0, 1e-3 * beta, beta, 3 * beta])
            op = dict(op="rate", teams=vals, sel=sel, vals=v, call=call)
            o = observe(model, "rate", teams, **_kw(op))
        else:
            op = dict(op=rng.choice(["predict_win", "predict_draw", "predict_rank"]), teams=vals)
            o = observe(model, op["op"], teams)
        reg = f"feedback/{op['op']}"
        if o.exc is not None:
            ctx.ev("no-return")
            ctx.violation("no-return", "fb", payload, dict(step=step, exc=exc_detail(o.exc)), model_name, reg)
            return
        nums = _numbers(op, o.res)
        ctx.ev("frame/no-write")
        ch = attrs_changed(o)
        if o.writes or ch:
            ctx.violation("frame/model-write", "fb", payload, dict(step=step, op=op["op"], call=op.get("call"),
                                                                  writes=[w[:3] for w in o.writes[:5]], attrs_changed=ch[:5]), model_name, reg)
        ctx.ev("history-free")
        ctx.ev("history-free/feedback")
        _, want = oracle(model_name, cfg, op, Ms)
        if not _same(nums, want):
            first = next((i for i, (x, y) in enumerate(zip(nums or [], want or [])) if float(x).hex() != float(y).hex()), None)
            ctx.violation("history-free", "fb", payload,
                          dict(step=step, op=op["op"], call=op.get("call"), previous_call=prev_call, first_diff_index=first,
                               got=(nums or [None])[first or 0], want=(want or [None])[first or 0]), model_name, reg)
            return
        if op["op"] == "rate":
            prev_call = op.get("call") or {}
            for t_i, t_out in zip(tidx, o.res):
                for i, p in zip(t_i, t_out):
                    pool[i] = p
        if after_fail:
            ctx.ev("history-free/after-failing-call")
            after_fail = False
        ctx.case(dict(f=payload["seed"], s=step), step > 0)
    ctx.bucket("feedback_sequences", KIND[model_name])


def probe_preempt(ctx, payload):
    """systematic single-preemption sweep of call A by a complete call B on one shared model"""
    from .. import sched

    model_name, cfg, opa, opb = payload["model"], payload["cfg"], payload["a"], payload["b"]
    Ms = models()
    install_taps()
    pre = sched.Preempt()
    model0 = league.make_model(model_name, cfg, Ms)
    teams0 = _mk_teams(model0, opa)

    def call(model, teams, op, box):
        def run():
            o = observe(model, op["op"], teams, **_kw(op)) if op["op"] == "rate" else observe(model, op["op"], teams)
            nums = None
            if o.exc is None:
                try:
                    nums = _numbers(op, o.res)
                except Exception as e:  # noqa: BLE001
                    o.exc = e
            box.append((o.exc, nums, list(o.writes), attrs_changed(o)))
        return run

    box = []
    trace = pre.trace(call(model0, teams0, opa, box))
    if not trace:
        raise Inconclusive("no LINE events observed for call A")
    _, want_a = oracle(model_name, cfg, opa, Ms)
    _, want_b = oracle(model_name, cfg, opb, Ms)
    # preemption points: the first occurrence of every distinct (function, line) + a sample of later occurrences
    first = {}
    for i, ev in enumerate(trace):
        first.setdefault(ev, i + 1)
    ks = sorted(set(first.values()))
    rng = random.Random(payload["extra"])
    later = [i + 1 for i in range(len(trace)) if (i + 1) not in first.values()]
    ks += rng.sample(later, min(len(later), 25 if ctx.tier == "quick" else 80))
    pts = ctx.notes.setdefault("preemption_points", [])
    for k in ks:
        model = league.make_model(model_name, cfg, Ms)
        ta, tb = _mk_teams(model, opa), _mk_teams(model, opb)
        ra, rb = [], []
        at, errors = pre.run(call(model, ta, opa, ra), k, call(model, tb, opb, rb))
        if errors or not ra or not rb:
            raise Inconclusive(f"preemption harness failure: {errors[:2]}")
        ctx.ev("preempt/run")
        if at is not None:
            key = f"{at[0]}:{at[1]}"
            if key not in pts and len(pts) < 3000:
                pts.append(key)
        reg = f"preempt/{opa['op']}x{opb['op']}"
        for who, (exc, nums, writes, ch), want, op in (("A", ra[0], want_a, opa), ("B", rb[0], want_b, opb)):
            if exc is not None:
                ctx.violation("preempt/no-return", "preempt", payload, dict(who=who, k=k, at=at, exc=exc_detail(exc)), model_name, reg)
                continue
            if writes or ch:
                ctx.violation("preempt/model-write", "preempt", payload,
                              dict(who=who, k=k, at=at, writes=[w[:3] for w in writes[:5]], attrs_changed=ch[:5]), model_name, reg)
            if not _same(nums, want):
                ctx.violation("preempt/result", "preempt", payload,
                              dict(who=who, k=k, suspended_at=at, op=op["op"], call=op.get("call")), model_name, reg)
        ctx.case(dict(p=payload["extra"], k=k), at is not None)
    ctx.count("preempt_pairs")
    ctx.count("preempt_trace_events", len(trace))
    ctx.bucket("preempt_pair_kinds", f"{opa['op']} x {opb['op']}")
    if len(ctx.samples) < 5 and ctx.rng.random() < 0.3:
        ctx.sample(dict(kind="preempt", model=model_name, call_a=dict(op=opa["op"], call=opa.get("call"), n_teams=len(opa["teams"])),
                        call_b=dict(op=opb["op"], call=opb.get("call"), n_teams=len(opb["teams"])),
                        trace_events=len(trace), distinct_statement_boundaries=len(first), preempted_runs=len(ks)))


# ------------------------------------------------------------------------------------------- re-entrant use
def probe_reenter(ctx, payload):
    """The application's gamma callback itself uses the model (it asks predict_draw how close the game is, or rates a
    side match) while the outer rate call is in progress: the same thread interleaves two calls on one model, at the
    points where the library hands control to the application.  The callback returns 1/k, so the outer call must return,
    bit for bit, what a model with the plain 1/k callback returns, and every inner call its history-free result."""
    model_name, cfg, outer, inner = payload["model"], dict(payload["cfg"], gamma="inv_k"), payload["outer"], payload["inner"]
    Ms = models()
    install_taps()
    o_plain, want = oracle(model_name, cfg, outer, Ms)
    model = league.make_model(model_name, cfg, Ms)
    inner_want = [oracle(model_name, cfg, op, Ms)[1] for op in inner]
    state = {"n": 0, "bad": [], "busy": False}

    def gamma(c, k, mu, sigma_squared, team, rank):
        if not state["busy"]:
            state["busy"] = True  # the inner calls' own callback invocations do not recurse further
            try:
                j = state["n"] % len(inner)
                state["n"] += 1
                op = inner[j]
                teams = _mk_teams(model, op)
                res = getattr(model, op["op"])(teams, **_kw(op)) if op["op"] == "rate" else getattr(model, op["op"])(teams)
                if not _same(_numbers(op, res), inner_want[j]):
                    state["bad"].append(dict(inner_call=j, op=op["op"], during_outer_callback=state["n"]))
            except Exception as e:  # noqa: BLE001
                state["bad"].append(dict(inner_call=state["n"], exc=exc_detail(e)))
            finally:
                state["busy"] = False
        return 1.0 / k

    model.gamma = gamma
    o, nums = run_op(model, outer)
    reg = f"reentrant/{KIND[model_name]}"
    ctx.ev("reentrant/outer==plain")
    ctx.count("reentrant_inner_calls", state["n"])
    if o.exc is not None or o_plain.exc is not None:
        ctx.violation("reentrant/no-return", "reenter", payload, dict(exc=exc_detail(o.exc or o_plain.exc)), model_name, reg)
        return
    ch = [c_ for c_ in attrs_changed(o) if c_[0] != "gamma"]
    if o.writes or ch:
        ctx.violation("frame/model-write", "reenter", payload, dict(writes=[w[:3] for w in o.writes[:5]], attrs_changed=ch[:5]), model_name, reg)
    if not _same(nums, want):
        first = next((i for i, (x, y) in enumerate(zip(nums or [], want or [])) if float(x).hex() != float(y).hex()), None)
        ctx.violation("reentrant/outer==plain", "reenter", payload,
                      dict(first_diff_index=first, got=(nums or [None])[first or 0], want=(want or [None])[first or 0],
                           inner_calls_made=state["n"]), model_name, reg)
    ctx.ev("reentrant/inner==history-free", max(1, state["n"]))
    if state["bad"]:
        ctx.violation("reentrant/inner==history-free", "reenter", payload, dict(first=state["bad"][:3]), model_name, reg)
    ctx.case(dict(re=payload["outer"]["teams"][0][0], m=model_name), state["n"] > 0)
    ctx.bucket("reentrant_inner_ops", "+".join(sorted({op["op"] for op in inner})))


# ------------------------------------------------------------------------------------------- cold-start preemption
def _purge_library():
    """forget the library: the next import builds every module-level object (lazily filled tables, memo dicts, caches)
    anew, as in a process that has not used the library yet"""
    from .. import attach, util

    for n in [n for n in sys.modules if n.split(".")[0] == "openskill"]:
        del sys.modules[n]
    attach._RC = None
    attach._taps_installed = False
    attach._corr_wrapped = False
    util._SUBCLASSES.clear()
    import openskill.models  # noqa: F401

    attach.install_taps()
    attach.is_rating(None)  # the harness's own lazy set-up (it constructs a model and a rating of each class) stays outside the traces
    return models()


def cold_run(payload, tier):
    """(runs in its own subprocess)  The single-preemption sweep of probe_preempt, but every run starts from a freshly
    imported library: the FIRST use of the library in a process is where lazily built module-level state is published,
    and two threads making their first calls together is an ordinary start-up pattern (a web worker's first requests).
    After each preempted pair the same calls and a few others are made again one after another in the same state, so a
    table corrupted by the race is seen even if the two racing calls themselves came out right."""
    from .. import sched

    model_name, cfg, opa, opb, follow = payload["model"], payload["cfg"], payload["a"], payload["b"], payload["follow"]

    def call(model, teams, op, box):
        def run():
            o = observe(model, op["op"], teams, **_kw(op)) if op["op"] == "rate" else observe(model, op["op"], teams)
            nums = None
            if o.exc is None:
                try:
                    nums = _numbers(op, o.res)
                except Exception as e:  # noqa: BLE001
                    o.exc = e
            box.append((o.exc, nums, list(o.writes), attrs_changed(o)))
        return run

    def seq_values(Ms, model):
        out = []
        for op in [opa, opb] + follow:
            box = []
            call(model, _mk_teams(model, op), op, box)()
            out.append(box[0])
        return out

    # expected values: the same calls one after another in a freshly imported library (cold trace of A first)
    Ms = _purge_library()
    install_taps()
    model = league.make_model(model_name, cfg, Ms)
    pre = sched.Preempt()
    box = []
    trace = pre.trace(call(model, _mk_teams(model, opa), opa, box))
    if not trace:
        return dict(error="no LINE events observed for call A")
    want_a = box[0][1]
    box = []
    call(model, _mk_teams(model, opb), opb, box)()
    want_b = box[0][1]
    want_seq = [x[1] for x in seq_values(Ms, model)]
    first = {}
    for i, ev in enumerate(trace):
        first.setdefault(ev, i + 1)
    # WARM trace of the same call in the same (now used) state: statements that the cold run executed and the warm run
    # does not (or executes less often) are the first-use code - lazily built tables, memo fills, one-time set-up.  Every
    # occurrence of such a statement, and the statement after it, is a preemption point; plus a sample of the others.
    from collections import Counter

    box2 = []
    warm = pre.trace(call(model, _mk_teams(model, opa), opa, box2))
    surplus = Counter(trace)
    surplus.subtract(Counter(warm))
    cold_only = {ev for ev, c in surplus.items() if c > 0}
    rng = random.Random(payload["extra"])
    ks_cold = set()
    for i, ev in enumerate(trace):
        if ev in cold_only:
            ks_cold.update((i + 1, i + 2))
    ks_cold = sorted(k for k in ks_cold if k <= len(trace))
    if len(ks_cold) > 120:
        ks_cold = sorted(rng.sample(ks_cold, 120))
    base = sorted(set(first.values()) - set(ks_cold))
    nb = 6 if tier == "quick" else 40
    ks = ks_cold + (sorted(rng.sample(base, nb)) if len(base) > nb else base)
    viol, points, runs = [], [], 0
    for k in ks:
        Ms = _purge_library()
        install_taps()
        model = league.make_model(model_name, cfg, Ms)
        pre = sched.Preempt()
        ta, tb = _mk_teams(model, opa), _mk_teams(model, opb)
        ra, rb = [], []
        at, errors = pre.run(call(model, ta, opa, ra), k, call(model, tb, opb, rb))
        if errors or not ra or not rb:
            return dict(error=f"preemption harness failure: {errors[:2]}")
        runs += 1
        if at is not None and f"{at[0]}:{at[1]}" not in points:
            points.append(f"{at[0]}:{at[1]}")
        for who, (exc, nums, writes, ch), want in (("A", ra[0], want_a), ("B", rb[0], want_b)):
            if exc is not None:
                viol.append(dict(clause="cold-preempt/no-return", who=who, k=k, at=at, exc=exc_detail(exc)))
            elif writes or ch:
                viol.append(dict(clause="cold-preempt/model-write", who=who, k=k, at=at, writes=[w[:3] for w in writes[:5]]))
            elif not _same(nums, want):
                viol.append(dict(clause="cold-preempt/result", who=who, k=k, suspended_at=at, got=(nums or [None])[:6], want=(want or [None])[:6]))
        # afterwards, one after another in the state the race left behind
        for j, ((exc, nums, writes, ch), want) in enumerate(zip(seq_values(Ms, model), want_seq)):
            if exc is not None:
                viol.append(dict(clause="cold-preempt/later-no-return", call_index=j, k=k, at=at, exc=exc_detail(exc)))
            elif not _same(nums, want):
                viol.append(dict(clause="cold-preempt/later-result", call_index=j, k=k, suspended_at=at, got=(nums or [None])[:6], want=(want or [None])[:6]))
        if len(viol) >= 5:
            break
    return dict(runs=runs, points=points, violations=viol, trace_events=len(trace), distinct_boundaries=len(first),
                first_use_statements=sorted(f"{fn}:{ln}" for fn, ln in cold_only), first_use_points=len(ks_cold))


def probe_cold(ctx, payload):
    env = dict(os.environ, PYTHONHASHSEED="0", PYTHONDONTWRITEBYTECODE="1")
    p = subprocess.run([sys.executable, "-m", "vmon.checks.c14", "cold", ctx.tier], input=json.dumps(payload), cwd=VERIF, env=env,
                       capture_output=True, text=True, timeout=1800)
    if p.returncode != 0 or not p.stdout.strip():
        raise Inconclusive(f"cold-start subprocess failed: {p.stderr[-400:]}")
    res = json.loads(p.stdout.strip().splitlines()[-1])
    if res.get("error"):
        raise Inconclusive("cold-start sweep: " + res["error"])
    ctx.ev("cold-preempt/run", res["runs"])
    ctx.count("cold_preempt_pairs")
    ctx.count("cold_first_use_preemption_points", res["first_use_points"])
    fu = ctx.notes.setdefault("first_use_statements", [])
    for x in res["first_use_statements"]:
        if x not in fu and len(fu) < 200:
            fu.append(x)
    pts = ctx.notes.setdefault("cold_preemption_points", [])
    for x in res["points"]:
        if x not in pts and len(pts) < 3000:
            pts.append(x)
    ctx.bucket("cold_pair_kinds", f"{payload['a']['op']} x {payload['b']['op']}")
    seen = set()
    for v in res["violations"]:
        if v["clause"] in seen:
            continue
        seen.add(v["clause"])
        ctx.violation(v["clause"], "cold", payload, v, payload["model"], f"cold/{payload['a']['op']}x{payload['b']['op']}")
    ctx.case(dict(cold=payload["extra"]), True)
    if len(ctx.samples) < 6 and ctx.rng.random() < 0.5:
        ctx.sample(dict(kind="cold-start preemption", model=payload["model"], call_a=payload["a"]["op"], call_b=payload["b"]["op"],
                        fresh_imports=res["runs"], first_use_statements=res["first_use_statements"][:10], distinct_statement_boundaries=res["distinct_boundaries"], trace_events=res["trace_events"]))


PROBES = {"seq": probe_seq, "threads": probe_threads, "fb": probe_fb, "preempt": probe_preempt, "cold": probe_cold,
          "reenter": probe_reenter}


# ------------------------------------------------------------------------------------------- hash-seed sweep (driver side)
def digest_workload(seed, nseq):
    """Deterministic workload (random.Random seeded with a str is independent of PYTHONHASHSEED); returns a digest of
    every float returned."""
    rng = random.Random(f"c14-digest/{seed}")
    Ms = models()
    allnums = []
    for s in range(nseq):
        m = rng.choice(MODEL_NAMES)
        cfg = gen.gen_cfg(rng)
        model = league.make_model(m, cfg, Ms)
        for op in gen_ops(rng, cfg, rng.randint(3, 10)):
            o, nums = run_op(model, op)
            allnums.extend(nums if nums is not None else [float("nan")])
    return digest_floats(allnums), len(allnums)


def order_workload(seed, ncalls, order):
    """The same deterministic list of calls (each on its own freshly constructed model: many configurations, few
    distinct team/player counts so that parameter-blind caches collide), executed in the given order in THIS process;
    returns {call index: digest of the floats it returned}.  Run in separate processes with different orders: a result
    that depends on what ran earlier in the process (a cache shared between model instances) differs between orders."""
    rng = random.Random(f"c14-order/{seed}")
    Ms = models()
    calls = []
    for i in range(ncalls):
        m = rng.choice(MODEL_NAMES)
        cfg = gen.gen_cfg(rng)
        op = gen_ops(rng, cfg, 1, kmax=3, pmax=2)[0]
        calls.append((m, cfg, op))
    idx = list(range(ncalls))
    if order == "reversed":
        idx.reverse()
    elif order.startswith("shuffle"):
        random.Random(order).shuffle(idx)
    out = {}
    for i in idx:
        m, cfg, op = calls[i]
        model = league.make_model(m, cfg, Ms)
        o, nums = run_op(model, op)
        out[str(i)] = digest_floats(nums if nums is not None else [float("nan")])[:16]
    return out


def order_step(tier, seed):
    ncalls = 1500 if tier == "quick" else 20000
    orders = ["forward", "reversed", "shuffle-1"] + ([] if tier == "quick" else ["shuffle-2", "shuffle-3"])
    res = {}
    for od in orders:
        env = dict(os.environ, PYTHONHASHSEED="0", PYTHONDONTWRITEBYTECODE="1")
        p = subprocess.run([sys.executable, "-m", "vmon.checks.c14", "order", str(seed), str(ncalls), od], cwd=VERIF, env=env,
                           capture_output=True, text=True, timeout=3600)
        if p.returncode != 0:
            raise Inconclusive(f"order subprocess failed: {p.stderr[-500:]}")
        res[od] = json.loads(p.stdout.strip().splitlines()[-1])
    base = res["forward"]
    viol = []
    ndiff = 0
    for od in orders[1:]:
        diff = [i for i in base if res[od].get(i) != base[i]]
        ndiff += len(diff)
        if diff:
            viol.append(dict(check="C14", clause="process-order/result", kind="order", payload=dict(seed=seed, ncalls=ncalls, order=od),
                             detail=dict(order=od, calls_differing=len(diff), first=diff[:5]), model=None, regime=od, seed=seed,
                             shard=-1, tier=tier))
    return dict(evals={"process-order/call": ncalls * (len(orders) - 1)}, violations=viol,
                process_order=dict(orders=orders, calls=ncalls, calls_differing=ndiff))


def probe_order(ctx, payload):
    res = {}
    for od in ("forward", payload["order"]):
        env = dict(os.environ, PYTHONHASHSEED="0", PYTHONDONTWRITEBYTECODE="1")
        p = subprocess.run([sys.executable, "-m", "vmon.checks.c14", "order", str(payload["seed"]), str(payload["ncalls"]), od],
                           cwd=VERIF, env=env, capture_output=True, text=True, timeout=3600)
        res[od] = json.loads(p.stdout.strip().splitlines()[-1])
    diff = [i for i in res["forward"] if res[payload["order"]].get(i) != res["forward"][i]]
    ctx.ev("process-order/call", payload["ncalls"])
    if diff:
        ctx.violation("process-order/result", "order", payload, dict(calls_differing=len(diff), first=diff[:5]), None, payload["order"])


def driver_steps(tier, seed, merged):
    seeds = ["0", "1", "2"] if tier == "quick" else ["0", "1", "2", "12345", "random"]
    nseq = 60 if tier == "quick" else 2400
    digests = {}
    for hs in seeds:
        env = dict(os.environ, PYTHONHASHSEED=hs, PYTHONDONTWRITEBYTECODE="1")
        p = subprocess.run([sys.executable, "-m", "vmon.checks.c14", str(seed), str(nseq)], cwd=VERIF, env=env,
                           capture_output=True, text=True, timeout=1800)
        if p.returncode != 0:
            raise Inconclusive(f"hash-seed subprocess failed: {p.stderr[-500:]}")
        digests[hs] = json.loads(p.stdout.strip().splitlines()[-1])
    out = dict(evals={"hashseed/digest": len(seeds)}, hashseed_digests=digests, violations=[])
    sp = merged["notes"].get("switch_points", [])
    sg = merged["notes"].get("interleaving_signatures", [])
    out["distinct_switch_points"] = len(sp)
    out["distinct_interleaving_signatures"] = len(sg)
    out["switch_point_functions"] = sorted({x.rsplit(":", 1)[0] for x in sp})
    pp = merged["notes"].get("preemption_points", [])
    out["distinct_preemption_points"] = len(pp)
    out["preemption_point_functions"] = sorted({x.rsplit(":", 1)[0] for x in pp})
    merged["notes"]["preemption_points"] = pp[:60]
    od = order_step(tier, seed)
    out["evals"].update(od["evals"])
    out["violations"].extend(od["violations"])
    out["process_order"] = od["process_order"]
    merged["notes"]["switch_points"] = sp[:60]
    merged["notes"]["interleaving_signatures"] = sg[:60]
    vals = {d["digest"] for d in digests.values()}
    if len(vals) > 1:
        out["violations"].append(dict(check="C14", clause="hashseed/digest", kind="hashseed", payload=dict(seed=seed, nseq=nseq),
                                      detail=digests, model=None, regime="hashseed", seed=seed, shard=-1, tier=tier))
    return out


def probe_hashseed(ctx, payload):
    ds = {}
    for hs in ("0", "1", "12345"):
        env = dict(os.environ, PYTHONHASHSEED=hs, PYTHONDONTWRITEBYTECODE="1")
        p = subprocess.run([sys.executable, "-m", "vmon.checks.c14", str(payload["seed"]), str(payload["nseq"])], cwd=VERIF,
                           env=env, capture_output=True, text=True, timeout=1800)
        ds[hs] = json.loads(p.stdout.strip().splitlines()[-1])["digest"]
        ctx.ev("hashseed/digest")
    if len(set(ds.values())) > 1:
        ctx.violation("hashseed/digest", "hashseed", payload, ds, None, "hashseed")


PROBES["hashseed"] = probe_hashseed
PROBES["order"] = probe_order

if __name__ == "__main__" and sys.argv[1] == "cold":
    print(json.dumps(cold_run(json.loads(sys.stdin.read()), sys.argv[2]), default=repr))
elif __name__ == "__main__" and sys.argv[1] == "order":
    print(json.dumps(order_workload(int(sys.argv[2]), int(sys.argv[3]), sys.argv[4])))
elif __name__ == "__main__":
    d, n = digest_workload(int(sys.argv[1]), int(sys.argv[2]))
    print(json.dumps(dict(digest=d, floats=n, hashseed=os.environ.get("PYTHONHASHSEED"))))
