"""C16 - results do not depend on the unit or origin of the skill scale (shadow execution)."""
import math

from .. import gen, tol
from ..predprobe import call_pred
from ..rateprobe import run_case, updated, common_buckets, exc_detail
from ..util import KIND

PROPERTY = "C16"
TECHNIQUE = "runtime monitoring: shadow execution on rescaled (constructor and in-place) and shifted copies of one game"
LEVEL = "exploration"
RULE = ("Each base game is re-executed by the real code on (a) a rescaled copy (mu, sigma of every player and the model's "
        "mu, sigma, beta, tau and any per-call tau multiplied by f in {2^k, 10^-3..10^3, log-uniform}) and (b) for games "
        "with equal team sizes a shifted copy (one constant added to every mu, all shifted mu kept inside +-20beta). "
        "The rescaled model is built both through the constructor and by multiplying the public attributes of an existing "
        "model object in place (bit-equal results required). rate(): scaling compared for PL/BT-full/BT-part only, shift for all models; posterior mu change and "
        "rho=(sigma_post/sigma_inflated)^2 compared with tolerance T6 (incl. the W~ noise and V~ sign-jump allowances for "
        "TM ties). predict_win/draw/rank: every model, both transformations, 1e-11 absolute. Non-trivial: f != 1 / "
        "shift != 0 and the base game has a non-zero update; distinct by hash of (game, transformation).")
ASSUMPTIONS = ["float noise model T6", "kappa is dimensionless outside Thurstone-Mosteller (why scaling of rate is not "
               "claimed for TM)", "the registered gamma callbacks are dimensionless; the shift clause is evaluated with callbacks that do not read the "
               "team's absolute mu (default, constants, 1/k)"]
REACH = ["rate", "_compute", "i_map", "od_reduce", "predict_win", "predict_draw", "predict_rank"]


def floors(tier):
    q = tier == "quick"
    return {"scale/rate": 20000 if q else 3200000, "shift/rate": 10000 if q else 1600000,
            "scale/predict": 15000 if q else 2400000, "scale/in-place==constructed": 20000 if q else 3000000, "shift/predict": 6000 if q else 960000}


def generate(ctx):
    n = ctx.budget(9000, 1280000)
    for _ in range(n):
        regime = ctx.rng.choice(["round_numbers", "coincidences", "typical", "wide", "mismatch", "equal_size", "equal_size", "identical", "tiny_sigma", "huge_sigma"])
        # base scale moderate so that f in 1e-3..1e3 stays inside the six decades the property speaks about
        cfg = gen.gen_cfg(ctx.rng, scale=1.0)
        case, meta = gen.gen_case(ctx.rng, cfg=cfg, regime=regime)
        r = ctx.rng.random()
        if r < 0.3:
            f = 2.0 ** ctx.rng.randint(-10, 10)
        elif r < 0.7:
            f = 10.0 ** ctx.rng.choice([-3, -2, -1, 1, 2, 3])
        else:
            f = 10.0 ** ctx.rng.uniform(-3, 3)
        beta = cfg["beta"]
        allmu = [p[0] for t in case["teams"] for p in t]
        lo, hi = -20 * beta - min(allmu), 20 * beta - max(allmu)
        a = ctx.rng.uniform(max(lo, -10 * beta), min(hi, 10 * beta)) if hi > lo else 0.0
        if ctx.rng.random() < 0.15:
            a = float(round(a))
        yield "sc", dict(case=case, meta=meta, f=f, a=a)


def _scaled(case, f):
    c = dict(case)
    c["cfg"] = dict(case["cfg"])
    for k in ("mu", "sigma", "beta", "tau"):
        c["cfg"][k] = case["cfg"][k] * f
    c["teams"] = [[[p[0] * f, p[1] * f, p[2]] for p in t] for t in case["teams"]]
    c["call"] = dict(case.get("call") or {})
    if c["call"].get("tau") is not None:
        c["call"]["tau"] = c["call"]["tau"] * f
    return c


def _shifted(case, a):
    c = dict(case)
    c["teams"] = [[[p[0] + a, p[1], p[2]] for p in t] for t in case["teams"]]
    return c


def _cmp_preds(ctx, clause, payload, base_case, other_case, model, reg):
    for op in ("predict_win", "predict_draw", "predict_rank"):
        o1 = call_pred(base_case, op)
        o2 = call_pred(other_case, op)
        ctx.ev(clause)
        if o1.exc is not None or o2.exc is not None:
            ctx.violation(clause + "/no-return", "sc", payload, dict(op=op, exc=exc_detail(o1.exc or o2.exc)), model, reg)
            continue
        try:
            if op == "predict_draw":
                a, b = [o1.res], [o2.res]
                ranks_equal = True
            elif op == "predict_win":
                a, b = list(o1.res), list(o2.res)
                ranks_equal = True
            else:
                a, b = [x[1] for x in o1.res], [x[1] for x in o2.res]
                # ranks may legitimately differ only where probabilities are within rounding of each other
                ranks_equal = all(r1[0] == r2[0] for r1, r2 in zip(o1.res, o2.res)) or _near_ties(a)
            d = max(abs(x - y) for x, y in zip(a, b)) if len(a) == len(b) else math.inf
        except Exception as e:  # noqa: BLE001
            ctx.violation(clause + "/shape", "sc", payload, dict(op=op, err=repr(e)), model, reg)
            continue
        ctx.frac(f"{clause}/1e-11", d / 1e-11)
        if d > 1e-11 or not ranks_equal:
            ctx.violation(clause, "sc", payload, dict(op=op, base=repr(o1.res)[:200], other=repr(o2.res)[:200], maxdiff=d), model, reg)


def _warm_up(model):
    """use a model object once (every operation, on throw-away ratings) before its public parameters are changed"""
    g = [[model.rating()], [model.rating(), model.rating()], [model.rating()]]
    model.predict_win(g)
    model.predict_draw(g)
    model.predict_rank(g)
    model.predict_win(g[:2])
    model.rate([[model.rating()], [model.rating()]])
    model.rate(g, ranks=[2, 1, 1])


def _near_ties(ps):
    s = sorted(ps)
    return any(abs(x - y) <= 1e-11 for x, y in zip(s, s[1:]))


def probe_sc(ctx, payload):
    case, meta, f, a = payload["case"], payload["meta"], payload["f"], payload["a"]
    model, kind = case["model"], KIND[case["model"]]
    base = run_case(case)
    reg = f"{meta['ties']}/{meta['regime']}"
    if base.exc is not None or base.shape_err:
        ctx.ev("no-return")
        ctx.violation("no-return", "sc", payload, dict(exc=exc_detail(base.exc) if base.exc else base.shape_err), model, reg)
        return
    common_buckets(ctx, base, meta)
    upd = updated(base)
    # ---- scaling
    cs = _scaled(case, f)
    if kind in ("PL", "BTF", "BTP"):
        r2 = run_case(cs)
        if r2.exc is not None or r2.shape_err:
            ctx.violation("scale/no-return", "sc", payload, dict(exc=exc_detail(r2.exc) if r2.exc else r2.shape_err, f=f), model, reg)
        else:
            munoise = tol.mu_noise(case, tau=base.tau, beta=base.cfg["beta"])
            bad = None
            for i, t in enumerate(case["teams"]):
                for j, p in enumerate(t):
                    ctx.ev("scale/rate")
                    m1, s1 = base.res[i][j]
                    m2, s2 = r2.res[i][j]
                    tmu = (tol.R * abs(m1 - p[0]) + munoise) * f
                    d = abs(m2 - m1 * f)
                    ctx.frac(f"scale_mu/{kind}", d / tmu if tmu > 0 else (0 if d == 0 else math.inf))
                    if not d <= tmu:
                        bad = bad or dict(what="mu", slot=[i, j], base=m1, scaled=m2, f=f, expected=m1 * f, tol=tmu)
                    ra = tol.rho(s1, p[1], base.tau)
                    rb = tol.rho(s2, p[1] * f, r2.tau)
                    tr = tol.R * max(1.0, ra) + 64 * tol.EPS
                    ctx.frac(f"scale_rho/{kind}", abs(ra - rb) / tr)
                    if not abs(ra - rb) <= tr:
                        bad = bad or dict(what="sigma", slot=[i, j], base=s1, scaled=s2, f=f, rho=[ra, rb], tol=tr)
            if bad:
                ctx.violation("scale/rate", "sc", payload, bad, model, reg)
    # the same rescaling done IN PLACE on an existing model object (model.beta *= f, ...): the public attributes are the
    # model's parameters, so this must give exactly what a model constructed with the scaled values gives (same arithmetic)
    if kind in ("PL", "BTF", "BTP", "TMF", "TMP"):
        from ..util import build
        from ..attach import observe

        m_inpl, t_inpl, kw_inpl = build(dict(cs, cfg=case["cfg"]))
        _warm_up(m_inpl)  # the object has been USED before its parameters change (lazily cached derived state)
        for attr in ("mu", "sigma", "beta", "tau"):
            setattr(m_inpl, attr, getattr(m_inpl, attr) * f)
        m_ctor, t_ctor, kw_ctor = build(cs)
        same_params = all(getattr(m_inpl, a_) == getattr(m_ctor, a_) for a_ in ("mu", "sigma", "beta", "tau"))
        if same_params:
            for op in ("rate", "predict_win", "predict_draw", "predict_rank"):
                if op == "rate":
                    o1, o2 = observe(m_inpl, "rate", t_inpl, **kw_inpl), observe(m_ctor, "rate", t_ctor, **kw_ctor)
                    g1 = None if o1.exc else [(p_.mu, p_.sigma) for t_ in o1.res for p_ in t_]
                    g2 = None if o2.exc else [(p_.mu, p_.sigma) for t_ in o2.res for p_ in t_]
                else:
                    m_a, t_a, _ = build(dict(cs, cfg=case["cfg"]))
                    _warm_up(m_a)
                    for attr in ("mu", "sigma", "beta", "tau"):
                        setattr(m_a, attr, getattr(m_a, attr) * f)
                    m_b, t_b, _ = build(cs)
                    o1, o2 = observe(m_a, op, t_a), observe(m_b, op, t_b)
                    g1, g2 = (None if o1.exc else repr(o1.res)), (None if o2.exc else repr(o2.res))
                ctx.ev("scale/in-place==constructed")
                if g1 != g2:
                    ctx.violation("scale/in-place==constructed", "sc", payload,
                                  dict(op=op, f=f, in_place=repr(g1)[:160], constructed=repr(g2)[:160]), model, reg)
        else:
            ctx.skip("scale/in-place==constructed")
    ctx.bucket("scale_factor_decade", int(math.floor(math.log10(f))))
    _cmp_preds(ctx, "scale/predict", payload, case, cs, model, reg)
    ctx.case(dict(c=case, f=f), f != 1 and upd)
    # ---- shift (equal team sizes)
    sizes = {len(t) for t in case["teams"]}
    # a callback that looks at the team's absolute mu is not shift-invariant by construction: excluded here
    if len(sizes) == 1 and a != 0 and case["cfg"]["gamma"] != "dep":
        csft = _shifted(case, a)
        r3 = run_case(csft)
        if r3.exc is not None or r3.shape_err:
            ctx.violation("shift/no-return", "sc", payload, dict(exc=exc_detail(r3.exc) if r3.exc else r3.shape_err, a=a), model, reg)
        else:
            munoise = tol.mu_noise(case, shift=a, tau=base.tau, beta=base.cfg["beta"])
            noise = tol.wt_noise(case, base.cfg, base.tau, meta["levels"])
            jump = tol.vt_jump(case, base.cfg, base.tau, meta["levels"])
            vnoise = tol.vt_noise(case, base.cfg, base.tau, meta["levels"])
            bad = None
            for i, t in enumerate(case["teams"]):
                tv = math.fsum(q[1] ** 2 + base.tau ** 2 for q in t)
                for j, p in enumerate(t):
                    ctx.ev("shift/rate")
                    m1, s1 = base.res[i][j]
                    m2, s2 = r3.res[i][j]
                    share = (p[1] ** 2 + base.tau ** 2) / tv
                    d1 = m1 - p[0]
                    d2 = m2 - (p[0] + a)
                    tmu = tol.R * max(abs(d1), abs(d2)) + munoise + share * (jump[i] + vnoise[i])
                    ctx.frac(f"shift_mu/{kind}", abs(d1 - d2) / tmu if tmu > 0 else (0 if d1 == d2 else math.inf))
                    if not abs(d1 - d2) <= tmu:
                        bad = bad or dict(what="mu", slot=[i, j], dmu_base=d1, dmu_shifted=d2, a=a, tol=tmu)
                    ra = tol.rho(s1, p[1], base.tau)
                    rb = tol.rho(s2, p[1], base.tau)
                    tr = tol.R * max(1.0, ra) + 2 * share * noise[i] + 64 * tol.EPS
                    ctx.frac(f"shift_rho/{kind}", abs(ra - rb) / tr)
                    if not abs(ra - rb) <= tr:
                        bad = bad or dict(what="sigma", slot=[i, j], base=s1, shifted=s2, a=a, rho=[ra, rb], tol=tr)
            if bad:
                ctx.violation("shift/rate", "sc", payload, bad, model, reg)
        _cmp_preds(ctx, "shift/predict", payload, case, csft, model, reg)
        ctx.case(dict(c=case, a=a), upd)
    else:
        ctx.skip("shift/rate")
    if upd and len(ctx.samples) < 3 and ctx.rng.random() < 0.01:
        ctx.sample(dict(case=case, f=f, a=a, base_result=base.res))


PROBES = {"sc": probe_sc}
