"""C12 - predictions equal their documented pairwise-Gaussian closed forms (reference-model monitor)."""
from ..predprobe import gen_pred_case, call_pred, scribble
from ..rateprobe import exc_detail
from ..util import KIND
from ..refmodel import ref_predict

PROPERTY = "C12"
TECHNIQUE = "runtime monitoring: reference-model monitor (mpmath closed forms) on the three predict operations"
LEVEL = "exploration"
RULE = ("Every number returned by the real predict_win / predict_rank / predict_draw is compared with an independent "
        "40-digit mpmath evaluation of the forms quoted in the property (two-team form with N*beta^2, n-team form with "
        "n*beta^2 and n(n-1)/2, margin sqrt(N)*beta*Phi^-1((1+1/N)/2), draw = average over ordered pairs, plain sum for "
        "two teams); tolerance 1e-9 absolute. Non-trivial: some returned probability lies in (1e-6, 1-1e-6); distinct "
        "by canonical hash.")
ASSUMPTIONS = ["mpmath (40 digits) is the trusted base"]
REACH = ["predict_win", "predict_draw", "predict_rank", "phi_major", "phi_major_inverse"]


def floors(tier):
    q = tier == "quick"
    return {"win": 30000 if q else 1800000, "rank": 30000 if q else 1800000, "draw": 8000 if q else 450000}


def generate(ctx):
    n = ctx.budget(12000, 660000)
    for _ in range(n):
        case, meta = gen_pred_case(ctx.rng)
        yield "p", dict(case=case, meta=meta)


def probe_p(ctx, payload):
    case, meta = payload["case"], payload["meta"]
    model, kind = case["model"], KIND[case["model"]]
    teams = case["teams"]
    k = len(teams)
    reg = f"{meta['regime']}/n={'2' if k == 2 else '3+'}"
    rw, rr, rd = ref_predict(case["cfg"]["beta"], [[(p[0], p[1]) for p in t] for t in teams])
    nt = False
    ctx.bucket("n_teams", f"{kind}/n={k}")
    ctx.bucket("regime", meta["regime"])
    got = {}
    for op in ("predict_win", "predict_rank", "predict_draw"):
        o = call_pred(case, op)
        if o.exc is not None:
            ctx.ev("no-return")
            ctx.violation("no-return", "p", payload, dict(op=op, exc=exc_detail(o.exc)), model, reg)
            return
        got[op] = o.res
    try:
        win = [float(x) for x in got["predict_win"]]
        rank = [float(x[1]) for x in got["predict_rank"]]
        draw = float(got["predict_draw"])
        assert len(win) == k and len(rank) == k
    except Exception as e:  # noqa: BLE001
        ctx.ev("shape")
        ctx.violation("shape", "p", payload, dict(err=repr(e), got=repr(got)[:300]), model, reg)
        return
    scribble(got["predict_win"])  # numbers were copied out above; the returned lists belong to the caller
    scribble(got["predict_rank"])
    for name, g, r in (("win", win, rw), ("rank", rank, rr)):
        for i in range(k):
            ctx.ev(name)
            e = abs(g[i] - r[i])
            ctx.frac(f"{name}/1e-9", float(e) / 1e-9)
            if e > 1e-9:
                ctx.violation(name, "p", payload, dict(team=i, got=g[i], want=float(r[i])), model, reg)
                break
            nt = nt or 1e-6 < g[i] < 1 - 1e-6
    ctx.ev("draw")
    e = abs(draw - rd)
    ctx.frac("draw/1e-9", float(e) / 1e-9)
    if e > 1e-9:
        ctx.violation("draw", "p", payload, dict(got=draw, want=float(rd)), model, reg)
    nt = nt or 1e-6 < draw < 1 - 1e-6
    ctx.case(case, nt)
    if nt and len(ctx.samples) < 3 and ctx.rng.random() < 0.01:
        ctx.sample(dict(case=case, predict_win=win, predict_rank=got["predict_rank"], predict_draw=draw))


PROBES = {"p": probe_p}
