"""C19 - the five models differ only in their update rule (cross-copy differential monitor)."""
import copy
import inspect
import math
import operator

from .. import gen
from ..attach import observe, inputs_changed, attrs_changed
from ..predprobe import gen_pred_case
from ..rateprobe import run_case, exc_detail, aim_at_floor_window
from ..util import KIND, MODEL_NAMES, build, models, make_sub
from .c13 import _Variants

PROPERTY = "C19"
TECHNIQUE = "runtime monitoring: cross-copy differential monitor (every call replayed on the four sibling classes)"
LEVEL = "exploration"
RULE = ("Every monitored call on one model is replayed on the four sibling classes and the outcomes (value or exception "
        "class) compared: predict_win/draw/rank on identical (mu, sigma) and parameters (1e-12 absolute on probabilities; differences in "
        "(0,1e-12] are counted as ulp_level_divergences); the C13 grammar of malformed and well-formed arguments plus sampled DOUBLE faults (same "
        "accept/reject decision, same exception class); public operations and their signatures (names, kinds, defaults; "
        "default gamma compared by behaviour; annotations ignored); rating classes on a common probe set (comparison "
        "results or exception class, equality, hash-equality pattern, deepcopy behaviour, ordinal, repr shape); and "
        "BT-part vs BT-full on two-team games over all outcomes and configurations (1e-12 relative). All cases are "
        "non-trivial (five executions compared); distinct by canonical hash.")
ASSUMPTIONS = ["T2: across copies of the code 1e-12 relative rather than bit equality, so a behaviour-preserving rewrite of "
               "one copy is not an alarm"]
REACH = ["predict_win", "predict_draw", "predict_rank", "_check_teams", "rate", "__eq__", "__hash__", "__deepcopy__"]


def floors(tier):
    q = tier == "quick"
    return {"predict/cross-model": 20000 if q else 2000000, "accept-reject/cross-model": 10000 if q else 750000,
            "signature": 20, "rating-class/pattern": 3000 if q else 300000, "bt-part==bt-full": 6000 if q else 600000}


def generate(ctx):
    if ctx.shard == 0:
        yield "sig", {}
    n = ctx.budget(8000, 750000)
    for _ in range(n):
        case, meta = gen_pred_case(ctx.rng)
        yield "pred", dict(case=case, meta=meta)
    for _ in range(n):
        cfg = gen.gen_cfg(ctx.rng)
        case, meta = gen.gen_case(ctx.rng, model="BradleyTerryFull", cfg=cfg, kmax=2)
        if ctx.rng.random() < 0.1:
            aimed = aim_at_floor_window(case, ctx.rng)  # the window (0, kappa) just above the variance floor
            if aimed is not None:
                case = aimed
        yield "bt2", dict(case=case, meta=meta)
    nb = ctx.budget(36, 3000)
    for _ in range(nb):
        case, meta = gen.gen_case(ctx.rng, model="PlackettLuce", kmax=4, pmax=2, int_only=True, percall=False,
                                  regime=ctx.rng.choice(["typical", "equal_size"]))
        yield "grammar", dict(case=case, meta=meta)
    for _ in range(ctx.budget(1000, 100000)):
        vals = []
        for _ in range(6):
            r = ctx.rng.random()
            if r < 0.4:
                s = ctx.rng.randint(0, 16) / 4.0
                o = ctx.rng.randint(-20, 20) / 2.0
                vals.append([o + 3 * s, s])
            elif r < 0.6 and vals:
                vals.append(list(ctx.rng.choice(vals)))
            else:
                vals.append([ctx.rng.uniform(-50, 50), ctx.rng.uniform(0, 10)])
        yield "rclass", dict(vals=vals)


def _rel(a, b):
    if a == b:
        return 0.0
    d = abs(a - b)
    return d / max(abs(a), abs(b), 1e-300)


def _flat_pred(op, res):
    if op == "predict_draw":
        return [res]
    if op == "predict_win":
        return list(res)
    return [x for pr in res for x in (float(pr[0]), pr[1])]


def probe_pred(ctx, payload):
    case = payload["case"]
    Ms = models()
    reg = f"n={'2' if len(case['teams']) == 2 else '3+'}"
    for op in ("predict_win", "predict_draw", "predict_rank"):
        outs = {}
        for m in MODEL_NAMES:
            c = dict(case, model=m)
            model, teams, _ = build(c, Ms)
            o = observe(model, op, teams)
            outs[m] = ("exc", type(o.exc).__name__) if o.exc is not None else ("val", _flat_pred(op, o.res))
        ctx.ev("predict/cross-model", 4)
        base = outs[MODEL_NAMES[0]]
        for m in MODEL_NAMES[1:]:
            o = outs[m]
            if o[0] != base[0] or (o[0] == "exc" and o[1] != base[1]) or (o[0] == "val" and len(o[1]) != len(base[1])):
                ctx.violation("predict/cross-model", "pred", payload, dict(op=op, base=repr(base)[:150], other=repr(o)[:150]), m, reg)
                continue
            if o[0] == "val":
                # probabilities: 1e-12 ABSOLUTE (a relative test on a tail probability of 1e-200 measures the rounding of
                # the summed team mu, amplified by |x|, not a difference between the copies); predict_rank's integer ranks
                # are compared only where the probabilities are not within rounding of a tie
                if op == "predict_rank":
                    pa, pb = base[1][1::2], o[1][1::2]
                    ra, rb = base[1][0::2], o[1][0::2]
                    near_tie = any(abs(x - y) <= 1e-12 for i, x in enumerate(pa) for y in pa[i + 1:])
                    d = max((abs(x - y) for x, y in zip(pa, pb)), default=0.0)
                    # bit-identical probabilities leave no excuse for different ranks; with probabilities that differ in
                    # the last bits, ranks may legitimately flip only between (near-)tied teams
                    if ra != rb and (pa == pb or not near_tie):
                        d = 1.0
                else:
                    d = max((abs(x - y) for x, y in zip(o[1], base[1])), default=0.0)
                if d > 1e-12:
                    ctx.violation("predict/cross-model", "pred", payload,
                                  dict(op=op, model_a=MODEL_NAMES[0], a=base[1][:8], b=o[1][:8], rel=d), m, f"{op}/{reg}")
                elif d > 0:
                    ctx.count("ulp_level_divergences")
    ctx.case(case, True)
    if len(ctx.samples) < 2 and ctx.rng.random() < 0.01:
        ctx.sample(dict(kind="pred", teams=case["teams"], cfg=case["cfg"], predict_win_by_model={m: outs[m] for m in MODEL_NAMES}))


def probe_bt2(ctx, payload):
    case, meta = payload["case"], payload["meta"]
    outs = {}
    for m in ("BradleyTerryFull", "BradleyTerryPart"):
        r = run_case(dict(case, model=m))
        outs[m] = r
    a, b = outs["BradleyTerryFull"], outs["BradleyTerryPart"]
    ctx.ev("bt-part==bt-full")
    reg = meta["ties"]
    if (a.exc is None) != (b.exc is None) or a.shape_err or b.shape_err:
        ctx.violation("bt-part==bt-full", "bt2", payload, dict(full=exc_detail(a.exc) if a.exc else "ok",
                                                                part=exc_detail(b.exc) if b.exc else "ok"), "BradleyTerryPart", reg)
    elif a.exc is None:
        # mu: 1e-12 relative.  sigma: 1e-12 relative OR 1e-12 absolute on rho = (sigma_post/sigma_inflated)^2 - just above
        # the kappa floor the variance factor 1 - share*delta is a difference of nearly equal numbers, so a last-bit
        # difference between the copies is amplified by 1/factor in sigma (conditioning, not a divergence of the copies)
        d = 0.0
        for ta, tb, tp in zip(a.res, b.res, a.pri):
            for pa, pb, pr in zip(ta, tb, tp):
                d = max(d, _rel(pa[0], pb[0]))
                infl = pr[1] * pr[1] + a.tau * a.tau
                drho = abs(pa[1] * pa[1] - pb[1] * pb[1]) / infl if infl > 0 else 0.0
                d = max(d, min(_rel(pa[1], pb[1]), drho))
        if d > 1e-12:
            ctx.violation("bt-part==bt-full", "bt2", payload, dict(full=a.res, part=b.res, rel=d), "BradleyTerryPart", reg)
        elif d > 0:
            ctx.count("ulp_level_divergences")
    ctx.bucket("bt2_outcome", meta["ties"] + "/" + str(meta["enc"]))
    ctx.case(case, True)


def probe_grammar(ctx, payload):
    case = payload["case"]
    Ms = models()
    V = _Variants(case)

    def outcome(o):
        # a rejected call that has ALREADY modified a rating or the model is a different behaviour from one that has not
        # (exception class alone does not show a validation step moved behind the tau inflation in one copy)
        if o.exc is None:
            return "ok"
        return type(o.exc).__name__ + ("+ratings-modified" if inputs_changed(o) else "") + ("+model-modified" if attrs_changed(o) or o.writes else "")

    def each(label, op, mk):
        outs = {}
        for m in MODEL_NAMES:
            c = dict(case, model=m)
            model, teams, kw = build(c, Ms)
            args, kwargs = mk(model, teams, kw, m)
            o = observe(model, op, *args, **kwargs)
            outs[m] = outcome(o)
        ctx.ev("accept-reject/cross-model", 4)
        if len(set(outs.values())) > 1:
            odd = [m for m in MODEL_NAMES if outs[m] != outs[MODEL_NAMES[0]]] or MODEL_NAMES[:1]
            ctx.violation("accept-reject/cross-model", "grammar", payload, dict(variant=label, op=op, outcomes=outs), odd[0],
                          label.split("=")[0].split("[")[0])
        ctx.case([case["teams"], label, op], True)

    for label, builder in V.teams_level():
        if "rating of" in label:
            # 'a rating of another model' is relative to the model under test: use the next class in the registry
            continue
        for op in ("rate", "predict_win", "predict_draw", "predict_rank"):
            each(label, op, lambda model, teams, kw, m, b=builder, op=op: ((b(model, teams, Ms),), (kw if op == "rate" else {})))
    # double faults: two malformed positions in one argument (the ORDER in which a validator meets them decides which
    # exception class comes out, so a validator restructured in one copy shows here and nowhere else)
    singles = [(l, b) for l, b in V.teams_level() if l.startswith(("team[", "player[")) and "rating of" not in l]
    import random as _random

    rr = _random.Random(repr(case["teams"][0][0]))
    pairs = []
    for _ in range(60):
        (l1, b1), (l2, b2) = rr.sample(singles, 2)
        i1, i2 = l1.split("]")[0].split("[")[1], l2.split("]")[0].split("[")[1]
        if i1 != i2:
            pairs.append((l1, b1, l2, b2))
    for l1, b1, l2, b2 in pairs[:24]:
        for op in ("rate", "predict_win"):
            def mk2(model, teams, kw, m, b1=b1, b2=b2, op=op):
                t1 = b1(model, teams, Ms)
                # the second edit is applied to the result of the first (different team index, so they do not collide)
                t2 = b2(model, t1, Ms) if all(isinstance(x, list) for x in t1) else t1
                return (t2,), (kw if op == "rate" else {})
            try:
                each(f"double fault: {l1} + {l2}", op, mk2)
            except Exception:  # noqa: BLE001 - a builder that cannot be applied on top of another one is skipped
                ctx.skip("double-fault")
    # foreign-model rating at each position: model m receives a rating of model next(m)
    for i in range(V.n):
        for j in range(V.sizes[i]):
            for op in ("rate", "predict_win"):
                def mk(model, teams, kw, m, i=i, j=j, op=op):
                    other = MODEL_NAMES[(MODEL_NAMES.index(m) + 1) % len(MODEL_NAMES)]
                    t = [list(x) for x in teams]
                    t[i][j] = Ms[other]().rating(teams[i][j].mu, teams[i][j].sigma)
                    return (t,), (kw if op == "rate" else {})
                each(f"player[{i}][{j}]=rating of next model", op, mk)
    for label, sel_kw in V.selector_level():
        def mk(model, teams, kw, m, sel_kw=sel_kw):
            kw2 = {}
            for k_, v_ in sel_kw.items():
                if isinstance(v_, tuple) and len(v_) == 2 and v_[0] == "RATING":
                    vv = list(range(1, V.n + 1))
                    vv[v_[1]] = teams[0][0]
                    v_ = vv
                elif inspect.isgenerator(v_):
                    v_ = (x for x in range(V.n))
                kw2[k_] = v_
            return (teams,), kw2
        each(label, "rate", mk)
    for label, vals in V.wellformed():
        for sel in ("ranks", "scores"):
            each(f"wellformed {sel}:{label}", "rate", lambda model, teams, kw, m, sel=sel, vals=vals: ((teams,), {sel: list(vals)}))
    # create_rating / rating argument handling
    for label, args in (("create_rating list", ([25.0, 8.0],)), ("create_rating tuple", ((25.0, 8.0),)),
                        ("create_rating len3", ([1, 2, 3],)), ("create_rating str elem", (["a", 2],)),
                        ("create_rating rating", ("RATING",)), ("create_rating named", ([1.0, 2.0], "bob")),
                        ("create_rating int", (5,)), ("create_rating None", (None,))):
        outs = {}
        for m in MODEL_NAMES:
            model = Ms[m]()
            a = tuple(model.rating() if x == "RATING" else x for x in args) if isinstance(args, tuple) else args
            o = observe(model, "create_rating", *a)
            outs[m] = outcome(o)
        ctx.ev("accept-reject/cross-model", 4)
        if len(set(outs.values())) > 1:
            ctx.violation("accept-reject/cross-model", "grammar", payload, dict(variant=label, outcomes=outs), None, "create_rating")


def _sig(fn):
    try:
        s = inspect.signature(fn)
    except (TypeError, ValueError):
        return None
    out = []
    for p in s.parameters.values():
        d = p.default
        if d is inspect.Parameter.empty:
            ds = "<required>"
        elif callable(d):
            ds = "<callable>"
        else:
            ds = repr(d)
        out.append((p.name, str(p.kind), ds))
    return out


def probe_sig(ctx, payload):
    Ms = models()
    pub = {}
    for m in MODEL_NAMES:
        Mc = Ms[m]
        names = sorted(n for n in dir(Mc) if not n.startswith("_") and callable(getattr(Mc, n)))
        pub[m] = names
    ctx.ev("signature")
    base = pub[MODEL_NAMES[0]]
    for m in MODEL_NAMES[1:]:
        if pub[m] != base:
            ctx.violation("signature/operations", "sig", payload, dict(a=base, b=pub[m]), m, "operations")
    for name in base + ["__init__"]:
        sigs = {m: _sig(getattr(Ms[m], name, None)) for m in MODEL_NAMES}
        ctx.ev("signature")
        for m in MODEL_NAMES[1:]:
            if sigs[m] != sigs[MODEL_NAMES[0]]:
                ctx.violation("signature/parameters", "sig", payload, dict(method=name, a=sigs[MODEL_NAMES[0]], b=sigs[m]), m, name)
    # rating class surface
    rc = {m: type(Ms[m]().rating()) for m in MODEL_NAMES}
    for name in ("__init__", "ordinal", "__lt__", "__le__", "__gt__", "__ge__", "__eq__", "__hash__", "__deepcopy__"):
        sigs = {m: _sig(getattr(rc[m], name, None)) for m in MODEL_NAMES}
        ctx.ev("signature")
        for m in MODEL_NAMES[1:]:
            if sigs[m] != sigs[MODEL_NAMES[0]]:
                ctx.violation("signature/rating-class", "sig", payload, dict(method=name, a=sigs[MODEL_NAMES[0]], b=sigs[m]), m, name)
    attrs = {m: sorted(vars(Ms[m]().rating())) for m in MODEL_NAMES}
    mattrs = {m: sorted(k for k in vars(Ms[m]()) if not k.endswith("Rating")) for m in MODEL_NAMES}
    ctx.ev("signature", 2)
    for m in MODEL_NAMES[1:]:
        if attrs[m] != attrs[MODEL_NAMES[0]]:
            ctx.violation("signature/rating-attributes", "sig", payload, dict(a=attrs[MODEL_NAMES[0]], b=attrs[m]), m, "attrs")
        if mattrs[m] != mattrs[MODEL_NAMES[0]]:
            ctx.violation("signature/model-attributes", "sig", payload, dict(a=mattrs[MODEL_NAMES[0]], b=mattrs[m]), m, "attrs")
    # defaults by behaviour: constructed defaults and the default gamma on probe inputs
    dv = {m: {k: v for k, v in vars(Ms[m]()).items() if isinstance(v, (int, float, bool))} for m in MODEL_NAMES}
    ctx.ev("signature")
    for m in MODEL_NAMES[1:]:
        if dv[m] != dv[MODEL_NAMES[0]]:
            ctx.violation("signature/default-values", "sig", payload, dict(a=dv[MODEL_NAMES[0]], b=dv[m]), m, "defaults")
    probes = [(2.0, 3, 25.0, 70.0, [1, 2], 0), (10.0, 2, -5.0, 1e-4, [1], 1), (1e3, 8, 1e3, 4e4, [1, 2, 3], 5)]
    for pr in probes:
        g = {}
        for m in MODEL_NAMES:
            try:
                g[m] = Ms[m]().gamma(*pr)
            except Exception as e:  # noqa: BLE001
                g[m] = type(e).__name__
        ctx.ev("signature")
        for m in MODEL_NAMES[1:]:
            a, b = g[MODEL_NAMES[0]], g[m]
            if type(a) is not type(b) or (isinstance(a, float) and _rel(a, b) > 1e-12) or (isinstance(a, str) and a != b):
                ctx.violation("signature/default-gamma", "sig", payload, dict(probe=repr(pr), a=a, b=b), m, "gamma")
    ctx.case(["signatures"], True)
    ctx.sample(dict(kind="sig", public_operations=base, rate_signature=_sig(Ms[MODEL_NAMES[0]].rate)))


class _Any:
    def __eq__(self, other):
        return True

    def __ne__(self, other):
        return False

    __hash__ = None


_ANY = _Any()


def probe_rclass(ctx, payload):
    Ms = models()
    vals = payload["vals"]
    pats = {}
    for m in MODEL_NAMES:
        model = Ms[m]()
        rs = [model.rating(v[0], v[1], ("", "x ", None, "n3", "n4", "n5")[i % 6]) for i, v in enumerate(vals)]
        pat = []
        for a in rs:
            for b in rs:
                for fn in (operator.lt, operator.le, operator.gt, operator.ge, operator.eq, operator.ne):
                    try:
                        pat.append(bool(fn(a, b)))
                    except Exception as e:  # noqa: BLE001
                        pat.append(type(e).__name__)
                pat.append(hash(a) == hash(b) if a is not b else "self")
        for a in rs:
            # an operand whose own __eq__ matches everything (unittest.mock.ANY, a wildcard): whether the rating answers
            # NotImplemented (Python then asks the other side) or False is part of the comparison rules the copies share
            pat += [bool(a == _ANY), bool(_ANY == a), bool(a != _ANY), a in [_ANY], [_ANY].count(a)]
            for other in (5, "x", None, (1, 2)):
                for fn in (operator.lt, operator.ge, operator.eq):
                    try:
                        pat.append(bool(fn(a, other)))
                    except Exception as e:  # noqa: BLE001
                        pat.append(type(e).__name__)
            c = copy.deepcopy(a)
            pat += [c is not a, c.mu == a.mu and c.sigma == a.sigma, c.id == a.id, c.name == a.name, repr(c.name), hash(c) == hash(a), c == a]
            s = copy.copy(a)
            pat += [s is not a, s.id == a.id, s == a]
            pat.append(a.ordinal())
            pat.append(a.ordinal(1.5))
            pat.append(repr(a).replace(type(a).__name__, "R"))
            try:
                hash(a)
                pat.append("hashable")
            except Exception as e:  # noqa: BLE001
                pat.append(type(e).__name__)
        # instances of application-side subclasses of the rating class (inherited constructor / own constructor signature)
        RC = type(rs[0])
        for which in (0, 1):
            try:
                sb = make_sub(RC, which, vals[0][0], vals[0][1], "sub")
                pat += [bool(sb == rs[0]), bool(rs[0] == sb), hash(sb) == hash(rs[0])]
                for fn in (operator.lt, operator.ge):
                    for x, y in ((sb, rs[1]), (rs[1], sb), (sb, sb)):
                        try:
                            pat.append(bool(fn(x, y)))
                        except Exception as e:  # noqa: BLE001
                            pat.append(type(e).__name__)
                try:
                    c = copy.deepcopy(sb)
                    pat += ["deepcopy ok", type(c) is type(sb), type(c) is RC, c.mu == sb.mu and c.sigma == sb.sigma, c.name == sb.name,
                            c.id == sb.id, c == sb]
                except Exception as e:  # noqa: BLE001
                    pat.append("deepcopy " + type(e).__name__)
                try:
                    c = copy.deepcopy([[sb, rs[1]]])[0][0]
                    pat += [type(c) is RC, c.mu == sb.mu and c.sigma == sb.sigma]
                except Exception as e:  # noqa: BLE001
                    pat.append("nested deepcopy " + type(e).__name__)
            except Exception as e:  # noqa: BLE001
                pat.append("subclass " + type(e).__name__)
        nested = [[rs[0], rs[1]], [rs[2], rs[0]]]
        dc = copy.deepcopy(nested)
        pat += [dc[0][0].id == rs[0].id, dc[1][1].id == rs[0].id, dc[0][0] is not rs[0], len(dc) == 2]
        pats[m] = pat
    ctx.ev("rating-class/pattern", 4)
    base = pats[MODEL_NAMES[0]]
    for m in MODEL_NAMES[1:]:
        if pats[m] != base:
            i = next(k for k, (x, y) in enumerate(zip(pats[m], base)) if x != y) if len(pats[m]) == len(base) else -1
            ctx.violation("rating-class/pattern", "rclass", payload,
                          dict(first_difference_index=i, a=repr(base[i])[:80] if i >= 0 else len(base),
                               b=repr(pats[m][i])[:80] if i >= 0 else len(pats[m])), m, "pattern")
    ctx.case(vals, True)


PROBES = {"pred": probe_pred, "bt2": probe_bt2, "grammar": probe_grammar, "sig": probe_sig, "rclass": probe_rclass}
