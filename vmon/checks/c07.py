"""C07 - no rating inflation: the precision-weighted mu change sums to zero over a game."""
import math

from .. import gen
from ..rateprobe import run_case, common_buckets, exc_detail
from ..util import KIND, EPS, MODEL_NAMES

PROPERTY = "C07"
PYTEST_PREFIX = "C07/"
TECHNIQUE = "runtime monitoring: contract monitor (conservation relation over the outputs of one call)"
LEVEL = "exploration"
RULE = ("Contract on every real rate() return: S = sum_i (sum_j dmu_ij)/(sum_j sigma_ij^2+tau^2) computed from the "
        "pre-call snapshot and the returned values must satisfy |S| <= sum_ij (1e-9|dmu_ij| + 4eps(|mu_prior|+|mu_post|))"
        "/var_i + 8eps sum_q(1+|x_iq|)/c_min for the rounding inside the accumulated sum (+ 2kappa/c_min^2 per tied pair for Thurstone-Mosteller, c_min^2 = 2beta^2+s_i^2+s_q^2). Workload as C01 "
        "(all outcomes incl. multi-way ties; beta/tau/kappa/gamma varied); when all team variances are equal the plain "
        "sum of mu changes is checked too. Non-trivial: tolerance < 1e-3 of sum_i |team dmu|/var_i, i.e. the monitor can "
        "see an imbalance; distinct by canonical hash.")
ASSUMPTIONS = ["rounding allowance T5 on differences read off outputs"]
REACH = ["_compute", "i_map", "od_reduce", "_sum_q", "_a", "_ladder_pairs", "v", "vt"]


def floors(tier):
    return {"conservation": 15000 if tier == "quick" else 4000000}


def generate(ctx):
    idx = 0
    for rep in range(1 if ctx.tier == "quick" else 12):
        for m_ in MODEL_NAMES:
            for k_ in (5, 6, 7, 8):
                idx += 1
                if idx % ctx.nshards == ctx.shard:
                    # every tie-group composition of k_ teams x systematic team-size patterns
                    for case, meta in gen.shape_cases(ctx.rng, m_, k_):
                        yield "game", dict(case=case, meta=meta)
    n = ctx.budget(30000, 6000000)
    for _ in range(n):
        case, meta = gen.gen_case(ctx.rng)
        yield "game", dict(case=case, meta=meta)


def probe_game(ctx, payload):
    case, meta = payload["case"], payload["meta"]
    model, kind = case["model"], KIND[case["model"]]
    run = run_case(case)
    reg = f"{meta['ties']}/{meta['regime']}"
    if run.exc is not None or run.shape_err:
        ctx.ev("no-return")
        ctx.violation("no-return", "game", payload, dict(exc=exc_detail(run.exc) if run.exc else run.shape_err), model, reg)
        return
    common_buckets(ctx, run, meta)
    tau2 = run.tau * run.tau
    S_terms, tol_terms, mag = [], [], 0.0
    var = []
    tdm = []
    for tp, tr in zip(run.pri, run.res):
        v = math.fsum(p[1] * p[1] + tau2 for p in tp)
        var.append(v)
        d = [r[0] - p[0] for p, r in zip(tp, tr)]
        tdm.append(math.fsum(d))
        S_terms.append(math.fsum(d) / v)
        tol_terms.append(math.fsum(1e-9 * abs(x) + 4 * EPS * (abs(p[0]) + abs(r[0])) for x, p, r in zip(d, tp, tr)) / v)
        mag += abs(math.fsum(d)) / v
    S = math.fsum(S_terms)
    allow = math.fsum(tol_terms)
    # rounding INSIDE the accumulated update: Omega_i is a sum of terms of size <= 1 (BT, PL) or <= |x| + 1 (TM) that may
    # cancel to nothing (three identical tied teams: (1 - 3p)/3 with p = 1/3), so its absolute rounding error is
    # eps * s_i^2/c * sum|terms| whatever the size of mu; divided by var_i that is eps * sum|terms| / c, c >= sqrt(2) beta
    th = [math.fsum(p[0] for p in tp) for tp in run.pri]
    c_low = math.sqrt(2.0) * run.cfg["beta"]
    allow += math.fsum(8 * EPS * (1 + abs(th[i] - th[q]) / c_low) / c_low for i in range(len(th)) for q in range(len(th)) if q != i)
    lv = meta["levels"]
    k = len(lv)
    if kind in ("TMF", "TMP"):
        b2 = run.cfg["beta"] ** 2
        for i in range(k):
            for q in range(i + 1, k):
                if lv[i] == lv[q]:
                    # reached exactly by two tied teams of equal mu (the asymptotic V~ returns +t for both): 1e-9 slack
                    allow += 2 * run.cfg["kappa"] / (var[i] + var[q] + 2 * b2) * (1 + 1e-9)
    ctx.ev("conservation")
    ctx.frac(f"S/allow/{kind}", abs(S) / allow if allow > 0 else 0)
    if not abs(S) <= allow:
        ctx.violation("conservation", "game", payload, dict(S=S, allowance=allow, team_dmu_over_var=S_terms), model, reg)
    if max(var) - min(var) <= 1e-12 * max(var):
        ctx.ev("equal-variance-sum")
        T = math.fsum(tdm)
        if not abs(T) <= allow * max(var):
            ctx.violation("equal-variance-sum", "game", payload, dict(sum_dmu=T, allowance=allow * max(var)), model, reg)
    nt = allow < 1e-3 * mag
    ctx.case(case, nt)
    if nt and len(ctx.samples) < 3 and ctx.rng.random() < 0.01:
        ctx.sample(dict(case=case, S=S, allowance=allow, result=run.res))


PROBES = {"game": probe_game}
