"""C06 - sigma stays positive, grows by at most tau per game, and limit_sigma caps it."""
import math

from .. import gen, league
from ..attach import observe
from ..rateprobe import run_case, common_buckets, exc_detail, shape_error
from ..attach import snap_teams
from ..util import KIND, MODEL_NAMES

PROPERTY = "C06"
PYTEST_PREFIX = "C06/"
TECHNIQUE = "runtime monitoring: contract monitor on every rate() return + online history monitor over fed-back leagues"
LEVEL = "exploration"
RULE = ("(i) single games over the full configuration box (per-call and model-level tau incl. 0 and limit_sigma, kappa "
        "up to 1e-2 with beta scaled down so the TM draw margin t=kappa/c is large, gamma>=0 callbacks incl. 0 and 3, "
        "ties and upsets 5-9 sigma apart): every returned sigma must be finite, >0, <= sqrt(prior^2+tau_eff^2)(1+1e-12) "
        "and <= prior when limit_sigma is in force (tau_eff / flag resolved by the monitor from the call arguments and the "
        "construction parameters); (ii) leagues with ratings fed back (skill-driven, random and adversarial outcomes, "
        "per-call options): an online history monitor keeps each player's previous sigma and applies the same bound per "
        "game. Non-trivial: a game in which some sigma changed; distinct by hash of the game / (league, step).")
ASSUMPTIONS = ["1e-12 relative slack on the quadrature bound (one rounding of sqrt(sigma^2+tau^2))",
               "gamma callbacks are non-negative"]
REACH = ["rate", "_compute", "i_map", "od_reduce", "w", "wt", "phi_major"]
SHARDS = {"quick": 15, "thorough": 16}


def floors(tier):
    q = tier == "quick"
    return {"sigma-bound": 40000 if q else 6400000, "sigma-limit": 8000 if q else 1200000,
            "history/step": 40000 if q else 7200000}


def generate(ctx):
    n = ctx.budget(16000, 2400000)
    for _ in range(n):
        r = ctx.rng.random()
        cfg = gen.gen_cfg(ctx.rng, gammas=["default", "default", "one", "three", "zero", "dep", "inv_k"])
        if r < 0.35:
            # large draw margin: kappa 1e-2 (or 1e-3) with beta scaled down to 1e-3 .. 1e-1 of default
            sc = 10 ** ctx.rng.uniform(-3, -1)
            cfg = gen.gen_cfg(ctx.rng, scale=sc, gammas=["default", "one", "three", "dep"], kappas=(1e-2, 1e-2, 1e-3))
        regime = ctx.rng.choice(["round_numbers", "coincidences", "mismatch", "mismatch", "mismatch", "typical", "wide", "huge_sigma", "tiny_sigma",
                                 "corners", "identical", "equal_size"])
        model = ctx.rng.choice(MODEL_NAMES + ["ThurstoneMostellerFull", "ThurstoneMostellerPart"])
        case, meta = gen.gen_case(ctx.rng, model=model, regime=regime, cfg=cfg)
        yield "game", dict(case=case, meta=meta)
    # leagues: one per (model, mode, option combo) spread over shards
    combos = []
    for m in MODEL_NAMES:
        for mode in ("skill", "random", "adversarial"):
            combos.append((m, mode))
    G = 3000 if ctx.tier == "quick" else 25000
    reps = 1 if ctx.tier == "quick" else 24
    for rep in range(reps):
        for ci, (m, mode) in enumerate(combos):
            if (ci + rep * 7) % ctx.nshards != ctx.shard:
                continue
            cfg = league.league_cfg(ctx.rng, gen, scale=ctx.rng.choice([1.0, 1.0, 1e-2, 1e2]),
                                    gammas=["default", "default", "one", "dep"])
            cfg["limit_sigma"] = ctx.rng.choice([False, True])
            yield "league", dict(model=m, cfg=cfg, players=40, games=G, mode=mode,
                                 seed=ctx.rng.randrange(2 ** 31), percall=ctx.rng.random() < 0.6)


def check_bounds(ctx, kind, payload, model_name, prior, res, tau, limit, reg, extra=None):
    """prior [[(mu, sigma)]], res [[(mu, sigma)]].  Returns True if some sigma changed."""
    changed = False
    for i, (tp, tr) in enumerate(zip(prior, res)):
        for j, (p, r) in enumerate(zip(tp, tr)):
            s0, s1 = p[1], r[1]
            ctx.ev("sigma-bound")
            bound = math.sqrt(s0 * s0 + tau * tau)
            ok = isinstance(s1, (int, float)) and math.isfinite(s1) and s1 > 0 and s1 <= bound * (1 + 1e-12)
            if ok:
                ctx.frac("sigma_post/bound", s1 / bound if bound > 0 else 0)
            else:
                d = dict(slot=[i, j], prior_sigma=s0, tau_eff=tau, bound=bound, got=s1)
                d.update(extra or {})
                ctx.violation("sigma-bound", kind, payload, d, model_name, reg)
            if limit:
                ctx.ev("sigma-limit")
                if not (s1 <= s0):
                    d = dict(slot=[i, j], prior_sigma=s0, got=s1, limit_sigma=True)
                    d.update(extra or {})
                    ctx.violation("sigma-limit", kind, payload, d, model_name, reg)
            if s1 != s0:
                changed = True
    return changed


def probe_game(ctx, payload):
    case, meta = payload["case"], payload["meta"]
    model = case["model"]
    run = run_case(case)
    kind = KIND[model]
    tbig = run.cfg["kappa"] / run.cfg["beta"] >= 0.05
    reg = f"{meta['regime']}/{meta['ties']}/{'large-t' if tbig else 'small-t'}"
    if run.exc is not None or run.shape_err:
        ctx.ev("no-return")
        ctx.violation("no-return", "game", payload, dict(exc=exc_detail(run.exc) if run.exc else run.shape_err), model, reg)
        return
    common_buckets(ctx, run, meta)
    ctx.bucket("draw_margin", f"{kind}/{'kappa/beta>=0.05' if tbig else 'small'}/{meta['ties']}")
    ch = check_bounds(ctx, "game", payload, model, [[(p[0], p[1]) for p in t] for t in run.pri], run.res, run.tau,
                      run.limit, reg)
    ctx.case(case, ch)
    if ch and len(ctx.samples) < 2 and ctx.rng.random() < 0.01:
        ctx.sample(dict(kind="game", case=case, result=run.res))


def probe_league(ctx, payload):
    model_name = payload["model"]
    cfg = payload["cfg"]
    stop_at = payload.get("stop_at")
    state = dict(n=0, maxsig=0.0, minsig=math.inf, maxmu=0.0, viol=False, games_per_player={})

    def on_game(step, model, teams, kw, prior, call):
        tau = call["tau"] if call.get("tau") is not None else cfg["tau"]
        limit = call["limit_sigma"] if call.get("limit_sigma") is not None else cfg["limit_sigma"]
        pre = snap_teams(teams)
        o = observe(model, "rate", teams, **kw)
        reg = f"league/{payload['mode']}"
        if not league.in_box(cfg, teams):
            # fed-back ratings walked out of the supported numeric range: the bound below is still judged when the call
            # returns, but a failure to return is outside C08's box and is not an observation about this property
            ctx.count("league_steps_outside_supported_range")
            if o.exc is not None:
                ctx.count("leagues_stopped_outside_supported_range")
                return None
        if o.exc is not None or shape_error(pre, o.res):
            ctx.ev("no-return")
            ctx.violation("no-return", "league", dict(payload, stop_at=step),
                          dict(step=step, exc=exc_detail(o.exc) if o.exc else shape_error(pre, o.res)), model_name, reg)
            return None
        res = [[(p.mu, p.sigma) for p in t] for t in o.res]
        before = ctx.nviol
        ch = check_bounds(ctx, "league", dict(payload, stop_at=step), model_name, prior, res, tau, limit, reg,
                          extra=dict(step=step, call=call))
        ctx.ev("history/step")
        for t in o.res:
            for p in t:
                state["maxsig"] = max(state["maxsig"], p.sigma)
                state["minsig"] = min(state["minsig"], p.sigma)
                state["maxmu"] = max(state["maxmu"], abs(p.mu))
                state["games_per_player"][p.name] = state["games_per_player"].get(p.name, 0) + 1
        ctx.case(dict(l=payload["seed"], s=step, m=model_name), ch)
        state["n"] += 1
        if ctx.nviol > before + 3 or (stop_at is not None and step >= stop_at):
            return None
        return o.res

    league.league(payload, on_game)
    ctx.bucket("league_games", f"{KIND[model_name]}/{payload['mode']}", state["n"])
    ctx.count("league_trajectories_ge10_games", sum(1 for v in state["games_per_player"].values() if v >= 10))
    beta = cfg["beta"]
    ctx.frac("league_max_sigma_over_beta", state["maxsig"] / beta / 100)
    if len(ctx.samples) < 4:
        ctx.sample(dict(kind="league", params=payload, games=state["n"], sigma_range_over_beta=[state["minsig"] / beta,
                                                                                                  state["maxsig"] / beta],
                        max_abs_mu_over_beta=state["maxmu"] / beta))


PROBES = {"game": probe_game, "league": probe_league}
