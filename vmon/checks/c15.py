"""C15 - per-call tau / limit_sigma mean exactly what the model-level setting means (shadow execution)."""
from .. import gen
from ..rateprobe import run_case, common_buckets, exc_detail
from ..util import KIND

PROPERTY = "C15"
TECHNIQUE = "runtime monitoring: shadow execution, bit equality of per-call vs model-level vs attribute-assigned configuration, after failed calls with per-call options, on copied models"
LEVEL = "exploration"
RULE = ("For each game four real executions are compared bit for bit: Model(tau=t, other...).rate(g) vs "
        "Model(tau=t', other...).rate(g, tau=t) for t in {0, 0.0, 1e-9beta, default, beta, 10beta, int 1} and a different "
        "model-level t'; Model(limit_sigma=b).rate(g) vs Model(limit_sigma=not b).rate(g, limit_sigma=b); both options "
        "omitted vs both passed explicitly; and a model whose public tau / limit_sigma attributes were ASSIGNED after "
        "construction vs a model constructed with those values; a model on which a call carrying OTHER per-call values has just FAILED (rejected as malformed, or the gamma callback raised inside the update) vs a fresh model, arguments omitted; and a model whose copy.copy / copy.deepcopy was given other settings vs a fresh model. Games are built so the options matter (sigma small against tau; weak evidence "
        "so limit_sigma binds). Non-trivial: a third execution shows that the two settings of the option give different "
        "results on that game, so equality is informative; distinct by canonical hash of (game, option values).")
ASSUMPTIONS = ["same code path on same float inputs => bit equality (T1)"]
REACH = ["rate"]


def floors(tier):
    q = tier == "quick"
    return {"tau/per-call==model": 6000 if q else 960000, "limit/per-call==model": 6000 if q else 960000,
            "omitted==explicit": 6000 if q else 960000, "attribute-assigned==constructed": 6000 if q else 960000, "omitted==model/after-failed-call": 5000 if q else 800000, "copied-model/independent": 10000 if q else 1600000, "tau=0": 1500 if q else 240000, "limit=False-over-True": 1500 if q else 240000}


def generate(ctx):
    n = ctx.budget(10000, 1600000)
    for _ in range(n):
        cfg = gen.gen_cfg(ctx.rng)
        regime = ctx.rng.choice(["round_numbers", "coincidences", "typical", "tiny_sigma", "wide", "mismatch", "equal_size", "identical"])
        case, meta = gen.gen_case(ctx.rng, cfg=cfg, regime=regime, percall=False)
        b = cfg["beta"]
        t = ctx.rng.choice([0, 0.0, 1e-9 * b, 25.0 / 300.0, b, 10 * b, 1])
        t_other = ctx.rng.choice([x for x in (0.0, 25.0 / 300.0, b, 3 * b) if x != t])
        lim = ctx.rng.choice([True, False])
        yield "opt", dict(case=case, meta=meta, t=t, t_other=t_other, lim=lim)


def _run(case, cfg_over, call):
    c = dict(case)
    c["cfg"] = dict(case["cfg"], **cfg_over)
    c["call"] = call
    return run_case(c)


def _flat(r):
    return [x.hex() for t in r.res for p in t for x in (float(p[0]), float(p[1]))]


def probe_opt(ctx, payload):
    case, meta = payload["case"], payload["meta"]
    model, kind = case["model"], KIND[case["model"]]
    t, t_other, lim = payload["t"], payload["t_other"], payload["lim"]
    base_lim = case["cfg"]["limit_sigma"]
    runs = dict(
        tau_model=_run(case, dict(tau=t), {}),
        tau_call=_run(case, dict(tau=t_other), dict(tau=t)),
        tau_otherval=_run(case, dict(tau=t_other), {}),
        lim_model=_run(case, dict(limit_sigma=lim, tau=max(case["cfg"]["tau"], case["cfg"]["beta"])), {}),
        lim_call=_run(case, dict(limit_sigma=(not lim), tau=max(case["cfg"]["tau"], case["cfg"]["beta"])), dict(limit_sigma=lim)),
        lim_otherval=_run(case, dict(limit_sigma=(not lim), tau=max(case["cfg"]["tau"], case["cfg"]["beta"])), {}),
        both_omitted=_run(case, dict(tau=t, limit_sigma=lim), {}),
        both_explicit=_run(case, dict(tau=t_other, limit_sigma=(not lim)), dict(tau=t, limit_sigma=lim)),
    )
    reg = f"t={'zero' if t == 0 else 'pos'}/lim={lim}"
    for name, r in runs.items():
        if r.exc is not None or r.shape_err:
            ctx.ev("no-return")
            ctx.violation("no-return", "opt", payload, dict(run=name, exc=exc_detail(r.exc) if r.exc else r.shape_err), model, reg)
            return
    common_buckets(ctx, runs["tau_model"], meta)
    f = {k: _flat(v) for k, v in runs.items()}
    ctx.ev("tau/per-call==model")
    if t == 0:
        ctx.ev("tau=0")
    ctx.bucket("tau_value", repr(t) if t in (0, 1) else ("tiny" if t < 1e-6 * case["cfg"]["beta"] else "pos"))
    if f["tau_model"] != f["tau_call"]:
        ctx.violation("tau/per-call==model", "opt", payload,
                      dict(t=t, model_level_other=t_other, model_level=runs["tau_model"].res[0][0], per_call=runs["tau_call"].res[0][0]),
                      model, reg)
    ctx.ev("limit/per-call==model")
    if lim is False:
        ctx.ev("limit=False-over-True")
    if f["lim_model"] != f["lim_call"]:
        ctx.violation("limit/per-call==model", "opt", payload,
                      dict(limit_sigma=lim, model_level=runs["lim_model"].res[0][0], per_call=runs["lim_call"].res[0][0]), model, reg)
    ctx.ev("omitted==explicit")
    if f["both_omitted"] != f["both_explicit"]:
        ctx.violation("omitted==explicit", "opt", payload,
                      dict(t=t, limit_sigma=lim, omitted=runs["both_omitted"].res[0][0], explicit=runs["both_explicit"].res[0][0]),
                      model, reg)
    # "omitting the argument uses the model's own setting": the model's own setting is what its public attributes hold
    # NOW - a model whose tau / limit_sigma were assigned after construction must behave like one constructed with them
    from ..util import build
    from ..attach import observe

    c_attr = dict(case, cfg=dict(case["cfg"], tau=t_other, limit_sigma=(not lim)), call={})
    m_attr, teams_attr, kw_attr = build(c_attr)
    from .c16 import _warm_up

    _warm_up(m_attr)  # used before its settings change
    m_attr.tau = float(t)
    m_attr.limit_sigma = lim
    o_attr = observe(m_attr, "rate", teams_attr, **kw_attr)
    ctx.ev("attribute-assigned==constructed")
    got = None if o_attr.exc else [x.hex() for t_ in o_attr.res for p_ in t_ for x in (float(p_.mu), float(p_.sigma))]
    if got != f["both_omitted"]:
        ctx.violation("attribute-assigned==constructed", "opt", payload,
                      dict(t=t, limit_sigma=lim, constructed=runs["both_omitted"].res[0][0],
                           assigned=None if o_attr.exc else [o_attr.res[0][0].mu, o_attr.res[0][0].sigma]), model, reg)
    # the same for EVERY public parameter: a model constructed with other values whose attributes are then assigned
    from ..util import GAMMAS as _G, DEFAULTS as _D

    target = dict(case["cfg"], tau=t, limit_sigma=lim)
    m_all, teams_all, kw_all = build(dict(case, cfg=dict(_D, gamma="default"), call={}))
    _warm_up(m_all)
    for attr in ("mu", "sigma", "beta", "kappa", "tau", "limit_sigma"):
        v = target[attr]
        setattr(m_all, attr, float(v) if attr in ("mu", "sigma", "kappa", "tau") else v)
    if _G[target["gamma"]] is not None:
        m_all.gamma = _G[target["gamma"]]
    o_all = observe(m_all, "rate", teams_all, **kw_all)
    ctx.ev("all-attributes-assigned==constructed")
    got = None if o_all.exc else [x.hex() for t_ in o_all.res for p_ in t_ for x in (float(p_.mu), float(p_.sigma))]
    if got != f["both_omitted"]:
        ctx.violation("all-attributes-assigned==constructed", "opt", payload,
                      dict(target={k_: v_ for k_, v_ in target.items()}, constructed=runs["both_omitted"].res[0][0],
                           assigned=None if o_all.exc else [o_all.res[0][0].mu, o_all.res[0][0].sigma]), model, reg)
    # --- the model's own setting after a FAILED call that carried per-call options: a call that is rejected, or in the
    #     middle of which the application's gamma callback raises, must not leave its per-call values on the model
    import copy as _copy

    def _hex(o):
        return None if o.exc else [x.hex() for t_ in o.res for p_ in t_ for x in (float(p_.mu), float(p_.sigma))]

    if not any(len(t_) == 5 for t_ in case["teams"]):
        boom = ("boom", "boom_type", "boom_key", "boom_value", "boom_attr")[(len(case["teams"]) + len(case["teams"][0])) % 5]
        c_boom = dict(case, cfg=dict(case["cfg"], tau=t, limit_sigma=lim, gamma=boom), call={})
        m_x, teams_x, kw_x = build(c_boom)
        m_y, teams_y, kw_y = build(c_boom)
        five = [[m_x.rating(name=f"f{i}") for i in range(5)], [m_x.rating(name="g")]]
        o_f1 = observe(m_x, "rate", five, tau=t_other, limit_sigma=(not lim))  # raises inside the update
        o_f2 = observe(m_x, "rate", [[m_x.rating()], [m_x.rating()]], ranks=[1], tau=t_other, limit_sigma=(not lim))  # rejected
        o_x = observe(m_x, "rate", teams_x, **kw_x)
        o_y = observe(m_y, "rate", teams_y, **kw_y)
        ctx.ev("omitted==model/after-failed-call")
        if o_f1.exc is not None:
            ctx.count("failed_calls_with_per_call_options")
        if o_y.exc is None and _hex(o_x) != _hex(o_y):
            ctx.violation("omitted==model/after-failed-call", "opt", payload,
                          dict(t=t, limit_sigma=lim, per_call_of_failed_call=dict(tau=t_other, limit_sigma=(not lim)),
                               failed=[repr(o_f1.exc)[:80], repr(o_f2.exc)[:80]],
                               fresh=None if o_y.exc else [o_y.res[0][0].mu, o_y.res[0][0].sigma],
                               after_failed=None if o_x.exc else [o_x.res[0][0].mu, o_x.res[0][0].sigma]), model, reg)
    # --- a COPY of the model (copy.copy / copy.deepcopy) is a model of its own: assigning tau / limit_sigma on the copy
    #     must not reconfigure the original, and the copy must use what was assigned to it
    c_cp = dict(case, cfg=dict(case["cfg"], tau=t, limit_sigma=lim), call={})
    for how in ("copy", "deepcopy"):
        m_o, teams_o, kw_o = build(c_cp)
        try:
            m_c = getattr(_copy, how)(m_o)
        except Exception:  # noqa: BLE001 - a model that cannot be copied (a callback that cannot be deep-copied) is skipped
            ctx.skip("model-copy")
            continue
        m_c.tau = float(t_other)
        m_c.limit_sigma = (not lim)
        o_o = observe(m_o, "rate", teams_o, **kw_o)
        ctx.ev("copied-model/independent")
        if _hex(o_o) != f["both_omitted"]:
            ctx.violation("copied-model/independent", "opt", payload,
                          dict(how=how, t=t, limit_sigma=lim, assigned_on_copy=dict(tau=t_other, limit_sigma=(not lim)),
                               original_now=None if o_o.exc else [o_o.res[0][0].mu, o_o.res[0][0].sigma],
                               expected=runs["both_omitted"].res[0][0]), model, reg)
        m_c.tau = float(t)
        m_c.limit_sigma = lim
        _, teams_c, kw_c = build(c_cp)
        if type(m_c) is type(m_o):
            # rating objects made by the original's class are this model's own rating objects
            o_c = observe(m_c, "rate", teams_c, **kw_c)
            if _hex(o_c) != f["both_omitted"]:
                ctx.violation("copied-model/independent", "opt", payload,
                              dict(how=how, which="the copy itself", t=t, limit_sigma=lim,
                                   got=None if o_c.exc else [o_c.res[0][0].mu, o_c.res[0][0].sigma],
                                   expected=runs["both_omitted"].res[0][0]), model, reg)
    tau_matters = f["tau_model"] != f["tau_otherval"]
    lim_matters = f["lim_model"] != f["lim_otherval"]
    ctx.bucket("option_matters", f"tau={tau_matters}/limit={lim_matters}")
    ctx.case(dict(c=case, t=t, o=t_other, l=lim), tau_matters or lim_matters)
    if tau_matters and lim_matters and len(ctx.samples) < 3 and ctx.rng.random() < 0.02:
        ctx.sample(dict(case=case, t=t, t_other=t_other, limit_sigma=lim, per_call_result=runs["both_explicit"].res))


PROBES = {"opt": probe_opt}
