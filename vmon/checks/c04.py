"""C04 - rate() is equivariant under reordering of teams and of players within a team."""
import itertools
import math

from .. import gen, tol
from ..rateprobe import run_case, updated, common_buckets, exc_detail
from ..util import KIND, MODEL_NAMES

PROPERTY = "C04"
TECHNIQUE = "runtime monitoring: shadow-execution monitor over permuted presentations of one game (all n! for n<=5 on base games)"
LEVEL = "exploration"
RULE = ("Each base game is rated by the real code in its original presentation and in permuted presentations (teams "
        "permuted with their ranks/scores, players permuted within teams); posteriors are mapped back per player and "
        "compared with tolerance T6 (1e-9 relative on the mu change plus 64 eps of the summed |mu|; sigma through "
        "rho=(sigma_post/sigma_inflated)^2 within 1e-9 plus the W~ cancellation noise C17 allows for TM ties). "
        "Partial-pairing models only see permutations that keep tied teams in their relative order (by construction). "
        "Thorough enumerates all n! team permutations for n<=5 on base games. Non-trivial: permutation is not the "
        "identity and the game has >=3 teams or a team with >=2 players; distinct by hash of (game, permutation).")
ASSUMPTIONS = ["float noise model T6; branch-threshold straddling between two presentations (probability ~1e-14 per "
               "evaluation) is not modelled"]
REACH = ["rate", "_unwind", "_sorter", "_ladder_pairs", "_compute", "i_map", "od_reduce", "_sum_q", "_a"]
EXHAUSTIVE = "thorough: all n! team permutations for n<=5 on base games; quick: all n! for n<=4 on fewer base games"


def floors(tier):
    q = tier == "quick"
    return {"perm/mu": 150000 if q else 10000000, "perm/sigma": 150000 if q else 10000000}


def order_preserving(rng, levels, perm):
    """Rearrange perm so that, within every tie group, teams keep their original relative order."""
    pos_by_level = {}
    for newpos, old in enumerate(perm):
        pos_by_level.setdefault(levels[old], []).append(newpos)
    out = list(perm)
    for lv, poss in pos_by_level.items():
        members = sorted(perm[p] for p in poss)
        for p, m in zip(sorted(poss), members):
            out[p] = m
    return out


def generate(ctx):
    n = ctx.budget(16000, 1000000)
    nperm = 3 if ctx.tier == "quick" else 6
    shaped = []
    idx = 0
    for rep in range(1 if ctx.tier == "quick" else 12):
        for m_ in MODEL_NAMES:
            for k_ in (5, 6, 7, 8):
                idx += 1
                if idx % ctx.nshards == ctx.shard:
                    # every tie-group composition of k_ teams x systematic team-size patterns
                    shaped.extend(gen.shape_cases(ctx.rng, m_, k_))
    for it in range(n + len(shaped)):
        case, meta = shaped[it - n] if it >= n else gen.gen_case(ctx.rng, percall=True)
        k = len(case["teams"])
        part = KIND[case["model"]] in ("BTP", "TMP")
        perms = []
        for _ in range(nperm):
            tp = list(range(k))
            ctx.rng.shuffle(tp)
            if part:
                tp = order_preserving(ctx.rng, meta["levels"], tp)
            pp = []
            for i in tp:
                p = list(range(len(case["teams"][i])))
                ctx.rng.shuffle(p)
                pp.append(p)
            perms.append([tp, pp])
        yield "perm", dict(case=case, meta=meta, perms=perms)
    # exhaustive team permutations on base games
    nbase = 1 if ctx.tier == "quick" else 24
    kmax = 4 if ctx.tier == "quick" else 5
    idx = 0
    for m in MODEL_NAMES:
        for b in range(nbase):
            for k in range(2, kmax + 1):
                idx += 1
                if idx % ctx.nshards != ctx.shard:
                    continue
                case, meta = gen.gen_case(ctx.rng, model=m, kmin=k, kmax=k, pmax=3, percall=False,
                                          regime=ctx.rng.choice(["typical", "wide", "mismatch", "equal_size"]))
                part = KIND[m] in ("BTP", "TMP")
                perms, seen = [], set()
                for tp in itertools.permutations(range(k)):
                    tp = list(tp)
                    if part:
                        tp = order_preserving(ctx.rng, meta["levels"], tp)
                    if tuple(tp) in seen:
                        continue
                    seen.add(tuple(tp))
                    perms.append([tp, [list(range(len(case["teams"][i]))) for i in tp]])
                meta["exhaustive"] = True
                ctx.count("exhaustive_base_games")
                ctx.bucket("exhaustive_perms_per_n", f"n={k}", len(perms))
                yield "perm", dict(case=case, meta=meta, perms=perms)
    ctx.count("exhaustive_complete")


def probe_perm(ctx, payload):
    case, meta = payload["case"], payload["meta"]
    model = case["model"]
    kind = KIND[model]
    base = run_case(case)
    if base.exc is not None or base.shape_err:
        ctx.ev("no-return")
        ctx.violation("no-return", "perm", payload, dict(exc=exc_detail(base.exc) if base.exc else base.shape_err),
                      model, meta.get("ties"))
        return
    common_buckets(ctx, base, meta)
    k = len(case["teams"])
    noise = tol.wt_noise(case, base.cfg, base.tau, meta["levels"])
    munoise = tol.mu_noise(case, tau=base.tau, beta=base.cfg["beta"])
    vnoise = tol.vt_noise(case, base.cfg, base.tau, meta["levels"])
    multi = k >= 3 or any(len(t) >= 2 for t in case["teams"])
    for tp, pp in payload["perms"]:
        c2 = dict(case)
        c2["teams"] = [[case["teams"][i][j] for j in pj] for i, pj in zip(tp, pp)]
        if case.get("sel"):
            c2["vals"] = [case["vals"][i] for i in tp]
            if case.get("vals_tags"):
                c2["vals_tags"] = [case["vals_tags"][i] for i in tp]
        elif tp != list(range(k)):
            c2["sel"], c2["vals"] = "ranks", [list(range(k))[i] for i in tp]
        r2 = run_case(c2)
        ident = tp == list(range(k)) and all(p == sorted(p) for p in pp)
        reg = f"{meta['ties']}/{'tm-tie' if (kind in ('TMF', 'TMP') and meta['ties'] != 'none') else 'plain'}"
        if r2.exc is not None or r2.shape_err:
            ctx.ev("no-return")
            ctx.violation("no-return", "perm", payload, dict(exc=exc_detail(r2.exc) if r2.exc else r2.shape_err,
                                                              perm=[tp, pp]), model, reg)
            continue
        # teams whose players are listed in another order in this presentation (their float mu sum may differ by an ulp)
        resummed = {i for i, pj in zip(tp, pp) if len(pj) >= 2 and pj != sorted(pj)}
        jump = tol.vt_jump(case, base.cfg, base.tau, meta["levels"], resummed)
        bad = None
        for newi, (i, pj) in enumerate(zip(tp, pp)):
            for newj, j in enumerate(pj):
                mu0, s0 = case["teams"][i][j][0], case["teams"][i][j][1]
                a = base.res[i][j]
                b = r2.res[newi][newj]
                ctx.ev("perm/mu")
                ctx.ev("perm/sigma")
                share = (s0 * s0 + base.tau ** 2) / math.fsum(p[1] ** 2 + base.tau ** 2 for p in case["teams"][i])
                tmu = tol.R * max(abs(a[0] - mu0), abs(b[0] - mu0)) + munoise + share * (jump[i] + vnoise[i])
                dmu = abs(a[0] - b[0])
                ctx.frac(f"mu/{kind}", dmu / tmu if tmu > 0 else (0 if dmu == 0 else math.inf))
                if not dmu <= tmu:
                    bad = bad or dict(what="mu", slot=[i, j], base=a[0], perm=b[0], tol=tmu, perm_used=[tp, pp])
                ra, rb = tol.rho(a[1], s0, base.tau), tol.rho(b[1], s0, base.tau)
                tr = tol.R * max(1.0, ra) + 2 * share * noise[i] + 64 * tol.EPS
                ctx.frac(f"rho/{kind}", abs(ra - rb) / tr)
                if not abs(ra - rb) <= tr:
                    bad = bad or dict(what="sigma", slot=[i, j], base=a[1], perm=b[1], rho=[ra, rb], tol=tr,
                                      perm_used=[tp, pp])
        ctx.bucket("distinct_perm_n", f"n={k}")
        if noise and max(noise) > 0:
            ctx.count("tm_tie_cases_with_noise_allowance")
        if max(jump) > 0:
            ctx.count("tm_tie_cases_with_equal_mu_vt_jump_allowance")
        elif kind in ("TMF", "TMP") and meta["ties"] != "none" and meta.get("regime") == "identical":
            ctx.count("tm_tie_equal_mu_cases_judged_without_jump_allowance")
        ctx.case(dict(c=case, p=[tp, pp]), (not ident) and multi and updated(base))
        if bad:
            ctx.violation("perm/" + bad["what"], "perm", payload, bad, model, reg)
    if len(ctx.samples) < 3 and multi and ctx.rng.random() < 0.02:
        ctx.sample(dict(case=case, perms=payload["perms"][:2], base_result=base.res))


PROBES = {"perm": probe_perm}
