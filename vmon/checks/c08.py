"""C08 - totality: valid games give finite ratings and probabilities, never an exception."""
import math

from .. import gen
from ..attach import observe, snap_teams
from ..rateprobe import exc_detail, shape_error
from ..util import KIND, MODEL_NAMES, build

PROPERTY = "C08"
PYTEST_PREFIX = "C08/"
TECHNIQUE = "runtime monitoring: contract monitor (escaping exceptions, finiteness) over the full numeric box + sys.monitoring RAISE tap"
LEVEL = "exploration"
RULE = ("Contract on the four public operations over the full stated box: 2-8 teams x 1-16 players, mu in +-20beta incl. "
        "all-corner games (largest exponents), sigma in [1e-4beta, 10beta] and sigma=0 when tau>=1e-8beta, every outcome "
        "encoding, tau in {0..10beta}, kappa in {1e-12..1e-2}, scale 1e-3..1e3. Any exception escaping, any non-finite "
        "number, any negative sigma is a violation (sigma = 0 can legitimately come back when the prior sigma is 0 and limit_sigma caps it). sys.monitoring RAISE events inside the repository are recorded too. "
        "Non-trivial: max |team mu gap|/c >= 8, or sigma ratio >= 1e3, or a team of >= 9 players, or sigma = 0; distinct "
        "by canonical hash.")
ASSUMPTIONS = ["tau so small that tau^2 underflows while sigma = 0 is outside the supported numeric range",
               "beta > 0, kappa in (0, 1e-2]"]
REACH = ["rate", "_compute", "i_map", "od_reduce", "predict_win", "predict_draw", "predict_rank", "v", "w", "vt", "wt",
         "_sum_q", "phi_major_inverse"]


def floors(tier):
    q = tier == "quick"
    return {"rate/total": 8000 if q else 1600000, "predict_win/total": 8000 if q else 1600000,
            "predict_draw/total": 8000 if q else 1600000, "predict_rank/total": 8000 if q else 1600000}


def generate(ctx):
    n = ctx.budget(14000, 2400000)
    for _ in range(n):
        cfg = gen.gen_cfg(ctx.rng, kappas=(1e-12, 1e-9, 1e-6, 1e-4, 1e-4, 1e-3, 1e-2, 1e-2))
        regime = ctx.rng.choice(["round_numbers", "coincidences", "corners", "corners", "mismatch", "wide", "tiny_sigma", "huge_sigma", "typical",
                                 "identical", "equal_size"])
        case, meta = gen.gen_case(ctx.rng, regime=regime, cfg=cfg, pmax=16)
        beta = cfg["beta"]
        r = ctx.rng.random()
        tau_eff = case["call"].get("tau", cfg["tau"])
        if r < 0.12 and tau_eff >= 1e-8 * beta:
            for t in case["teams"]:
                for p in t:
                    if ctx.rng.random() < 0.5:
                        p[1] = 0.0
            meta["sigma0"] = True
        elif r < 0.25:
            # extremes of the sigma range inside one game
            for t in case["teams"]:
                for p in t:
                    p[1] = ctx.rng.choice([1e-4 * beta, 10 * beta])
        yield "ops", dict(case=case, meta=meta)
    # corner lattice (complete in both tiers, sharded): the games with the LARGEST arguments the stated box allows - every
    # player at +-20 beta, 13..16 players a side, sigma from the floor of the range up to where the exponent argument
    # falls below ~350 - in two and three teams, every outcome of the two-team games, all five models, three skill units
    from ..util import MODEL_NAMES as _MN

    idx = 0
    for m_ in _MN:
        for scale in (1.0, 1e-3, 1e3):
            for sizes in ((16, 16), (13, 13), (16, 13), (16, 1), (16, 13, 16), (8, 8)):
                for sg in (1e-4, 0.05, 0.19, 1.0, 10.0):
                    idx += 1
                    if idx % ctx.nshards != ctx.shard:
                        continue
                    beta = 25.0 / 6.0 * scale
                    cfg = dict(mu=25.0 * scale, sigma=25.0 / 3.0 * scale, beta=beta, kappa=ctx.rng.choice([1e-12, 1e-4, 1e-2]),
                               tau=ctx.rng.choice([0.0, 25.0 / 300.0 * scale]), limit_sigma=False, gamma="default")
                    teams = [[[(20 * beta if i % 2 == 0 else -20 * beta), sg * beta, f"c{i}_{j}"] for j in range(n_)]
                             for i, n_ in enumerate(sizes)]
                    orders = ([[0, 1], [1, 0], [0, 0]] if len(sizes) == 2 else [[0, 1, 2], [2, 0, 1], [0, 0, 1]])
                    for lv in orders:
                        case = dict(model=m_, cfg=cfg, teams=teams, sel="ranks", vals=list(lv), call={})
                        yield "ops", dict(case=case, meta=dict(regime="corner_lattice", levels=lv, enc="int0/ranks",
                                                               ties=gen.tie_shape(lv), k=len(sizes)))
    ctx.count("corner_lattice_complete")


def _finite(x):
    return isinstance(x, (int, float)) and not isinstance(x, bool) and math.isfinite(x)


def probe_ops(ctx, payload):
    case, meta = payload["case"], payload["meta"]
    model_name, kind = case["model"], KIND[case["model"]]
    beta = case["cfg"]["beta"]
    th = [math.fsum(p[0] for p in t) for t in case["teams"]]
    sig = [p[1] for t in case["teams"] for p in t]
    cmin = math.sqrt(2) * beta
    gap = (max(th) - min(th)) / cmin
    pos = [s for s in sig if s > 0]
    ratio = (max(pos) / min(pos)) if pos else 1.0
    big = max(len(t) for t in case["teams"]) >= 9
    nt = gap >= 8 or ratio >= 1e3 or big or meta.get("sigma0", False)
    ctx.bucket("regime", meta["regime"])
    ctx.bucket("max_gap_over_c", f"{min(400, int(gap // 50) * 50)}+")
    ctx.bucket("nontrivial_reason", "+".join(n for n, f in (("gap", gap >= 8), ("ratio", ratio >= 1e3), ("bigteam", big),
                                                             ("sigma0", meta.get("sigma0", False))) if f) or "none")
    ctx.frac("max_exponent_argument/1000", gap / 1000)
    reg = f"{meta['regime']}/{'sigma0' if meta.get('sigma0') else 'pos'}"
    for op in ("predict_win", "predict_draw", "predict_rank", "rate"):
        model, teams, kw = build(case)
        if op == "rate":
            pre = snap_teams(teams)
            o = observe(model, "rate", teams, **kw)
        else:
            o = observe(model, op, teams)
        ctx.ev(f"{op}/total")
        if o.exc is not None:
            ctx.violation(f"{op}/exception", "ops", payload, dict(exc=exc_detail(o.exc)), model_name, reg)
            continue
        bad = None
        if op == "rate":
            err = shape_error(pre, o.res)
            if err:
                bad = err
            else:
                for i, t in enumerate(o.res):
                    for j, p in enumerate(t):
                        if not (_finite(p.mu) and _finite(p.sigma)):
                            bad = bad or f"slot ({i},{j}) = ({p.mu}, {p.sigma}) not finite"
                        elif p.sigma < 0:
                            bad = bad or f"slot ({i},{j}) sigma = {p.sigma} negative"
        elif op == "predict_win":
            if not (isinstance(o.res, list) and len(o.res) == len(teams) and all(_finite(x) for x in o.res)):
                bad = f"predict_win returned {o.res!r}"
        elif op == "predict_draw":
            if not _finite(o.res):
                bad = f"predict_draw returned {o.res!r}"
        else:
            if not (isinstance(o.res, list) and len(o.res) == len(teams) and
                    all(isinstance(x, tuple) and len(x) == 2 and _finite(x[0]) and _finite(x[1]) for x in o.res)):
                bad = f"predict_rank returned {o.res!r}"
        if bad:
            ctx.violation(f"{op}/non-finite", "ops", payload, dict(err=bad[:300]), model_name, reg)
    ctx.case(case, nt)
    if nt and len(ctx.samples) < 3 and ctx.rng.random() < 0.01:
        ctx.sample(dict(case=case, max_gap_over_c=gap, sigma_ratio=ratio))


PROBES = {"ops": probe_ops}
