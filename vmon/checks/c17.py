"""C17 - the Gaussian correction functions V, W, V~, W~ (and Phi) are accurate and stay in range."""
import math
import sys

from .. import gen
from ..attach import wrap_corrections, originals, CORR_COUNTS
from ..rateprobe import run_case
from ..refmodel import mp, M, Phi, V_exact, W_exact, Vt_exact, Wt_exact, band, EPS as MEPS
from ..util import EPS

PROPERTY = "C17"
PYTEST_PREFIX = "C17"
TECHNIQUE = "runtime monitoring: contract monitors against mpmath on swept arguments, branch-threshold neighbourhoods, lattice walks (pure-function history clause) and in-situ arguments"
LEVEL = "exploration"
RULE = ("Contract monitors on the real exported v, w, vt, wt, phi_major against 40-digit mpmath values. Sweep: t log-dense "
        "in [1e-8,1e-2] incl. both ends; x uniform in [-40,40], extra density in [-9,9], +-64-ulp neighbourhoods of every "
        "branch threshold located at run time by bisection on the EXACT functions (Phi(x-t)=eps, band mass=1e-5, band "
        "mass=eps, x=0, x=+-t), signed zeros and denormals; lattice walks (one t, consecutive points x=k/4 walked up and then down, every point judged at both visits and the two visits compared bit for bit - the functions are pure, so a memo that conflates arguments shows); Phi on [-37.5,38] with the lower tail over-sampled. The same "
        "contracts stay attached (rebinding of the names imported by the TM modules) while Thurstone-Mosteller games are "
        "rated, so the arguments the models really produce are judged too (in-situ). Clauses: finite; v>=0; w, wt in "
        "[-s,1+s], s=1e-13/t; v, w within 1e-6 relative where Phi(x-t)>=eps(1+1e-9), within 2% where <=eps(1-1e-9); "
        "|vt-V~|<=2t; |wt-W~|<=20t+1e-13/t; Phi within 1e-12 relative. Non-trivial: |x|<=9 (not saturated) or within 64 ulp "
        "of a threshold; distinct points counted by (x, t).")
ASSUMPTIONS = ["'of order 1e-14/t' is read as 1e-13/t (factor 10)", "mpmath is the trusted base",
               "preconditions: t in [1e-8,1e-2], |x|<=40 (calls outside are counted as skipped, not judged)"]
REACH = ["v", "w", "vt", "wt", "phi_major"]
SHARDS = {"quick": 14, "thorough": 16}

_F = {}
_insitu = {"ctx": None, "on": False}


def floors(tier):
    # 'in-situ' is deliberately NOT a deciding counter: a refactoring that stops calling the exported v/w/vt/wt from the TM
    # modules (e.g. fused helpers) makes it zero, and the dedicated sweep does not depend on it; it is reported in evidence
    q = tier == "quick"
    return {"v": 20000 if q else 2000000, "w": 20000 if q else 2000000, "vt": 20000 if q else 2000000,
            "wt": 20000 if q else 2000000, "phi": 20000 if q else 2000000, "repeat/same-value": 5000 if q else 500000, "threshold-neighbourhood": 2000 if q else 100000}


def setup(ctx):
    _F.update(originals())


_TH_CACHE = {}
_Z = []


def _bisect(f, lo, hi, n=70):
    """root of a monotone mp function on [lo, hi]"""
    flo = f(lo)
    for _ in range(n):
        mid = (lo + hi) / 2
        fm = f(mid)
        if (fm > 0) == (flo > 0):
            lo, flo = mid, fm
        else:
            hi = mid
    return (lo + hi) / 2


def thresholds(t):
    """x values where a branch of the library switches, computed from the exact functions"""
    if t in _TH_CACHE:
        return _TH_CACHE[t]
    T = M(t)
    out = {}
    if not _Z:
        _Z.append(_bisect(lambda y: Phi(y) - MEPS, M(-9), M(-7), 140))
    out["v/w guard"] = float(_Z[0] + T)  # Phi(x - t) = eps
    if band(M(0), T) > M("1e-5"):
        out["vt 1e-5"] = float(_bisect(lambda y: band(y, T) - M("1e-5"), M(0), M(12)))
    out["wt eps"] = float(_bisect(lambda y: band(y, T) - MEPS, M(0), M(12)))
    _TH_CACHE[t] = out
    return out


def _around(rng, x0, ulps=64):
    x = x0
    n = rng.randint(-ulps, ulps)
    for _ in range(abs(n)):
        x = math.nextafter(x, math.inf if n > 0 else -math.inf)
    return x


def generate(ctx):
    n = ctx.budget(42000, 3200000)
    rng = ctx.rng
    # thresholds are located by bisection on the exact functions, which is expensive: threshold neighbourhoods use a
    # per-shard pool of t values (fresh per shard and seed), all other points draw t freely
    pool = [10 ** rng.uniform(-8, -2) for _ in range(24 if ctx.tier == "quick" else 160)] + [1e-8, 1e-2, 1.3e-5, 1e-4]
    for _ in range(n):
        r = rng.random()
        t = 10 ** rng.uniform(-8, -2) if r > 0.06 else rng.choice([1e-8, 1e-2, 1e-5, 1.25e-5, 1.3e-5, 2.4e-5])
        r = rng.random()
        near = None
        if r < 0.28:
            x = rng.uniform(-40, 40)
        elif r < 0.58:
            x = rng.uniform(-9, 9)
        elif r < 0.76:
            t = rng.choice(pool)
            th = thresholds(t)
            name = rng.choice(sorted(th))
            x0 = th[name] * (rng.choice([1, -1]) if name != "v/w guard" else 1)
            if name == "v/w guard" and rng.random() < 0.3:
                x0 = -x0  # w/v are also called with -x
            x = _around(rng, x0)
            near = name
        elif r < 0.86:
            x = _around(rng, rng.choice([0.0, t, -t]), 64)
            near = "x=0,+-t"
        elif r < 0.92:
            x = rng.choice([0.0, -0.0, 5e-324, -5e-324, 1e-300, -1e-300, 1e-9, -1e-9, 40.0, -40.0])
        else:
            x = rng.gauss(0, 1) * rng.choice([1, 3])
        r = rng.random()
        y = rng.uniform(-37.5, 38) if r < 0.6 else (rng.uniform(-37.5, -30) if r < 0.8 else rng.uniform(-9, -4))
        yield "pt", dict(x=x, t=t, y=y, near=near)
    # lattice walks: the functions are PURE - the value at (x, t) may not depend on which other arguments were asked about
    # before.  One t, a window of consecutive lattice points x = k/4 (integers and dyadic fractions, +-0.0 included) walked
    # upwards and then downwards, every point judged at both visits and the two visits compared bit for bit.
    for _ in range(ctx.budget(56, 4800)):
        t = rng.choice(pool + [1e-5, 1e-4, 1e-3])
        k0 = rng.randint(-160, 160 - 24) if rng.random() < 0.5 else rng.randint(-24, 0)
        xs = [k / 4.0 for k in range(k0, k0 + 25)]
        if rng.random() < 0.5:
            xs = [float(int(x)) for x in xs[::2]] + xs
        if rng.random() < 0.5:
            xs = xs + [t, -t, 2 * t, -2 * t, 0.0, -0.0, t / 2, 1.0 + t, -1.0 - t]  # exactly ON the branch boundaries x = +-t, 0
        yield "lat", dict(t=t, xs=xs + xs[::-1])
    # in-situ: TM games under the attached contracts
    ng = ctx.budget(1500, 80000)
    for _ in range(ng):
        cfg = gen.gen_cfg(rng, kappas=(1e-6, 1e-4, 1e-4, 1e-3, 1e-2))
        case, meta = gen.gen_case(rng, model=rng.choice(["ThurstoneMostellerFull", "ThurstoneMostellerPart"]), cfg=cfg,
                                  regime=rng.choice(["mismatch", "mismatch", "typical", "wide", "identical", "corners"]))
        yield "game", dict(case=case, meta=meta)


def judge(ctx, kind, payload, name, x, t, got, insitu=False):
    """one contract evaluation of function `name` at (x, t)"""
    pre = "in-situ/" if insitu else ""
    if name == "phi_major":
        if not (-37.5 <= x <= 38):
            ctx.skip("phi")
            return
        ctx.ev("phi")
        ex = Phi(M(x))
        e = abs(M(got) - ex) / ex
        ctx.frac("phi_rel/1e-12", float(e) / 1e-12)
        if not (math.isfinite(got) and e <= M("1e-12")):
            ctx.violation(pre + "phi", kind, payload, dict(x=x, got=got, want=float(ex), rel=float(e)), None,
                          "lower-tail" if x < -5 else "body")
        return
    if not (1e-8 <= t <= 1e-2 and abs(x) <= 40):
        ctx.skip(name)
        return
    ctx.ev(name)
    if insitu:
        ctx.ev("in-situ")
    X, T = M(x), M(t)
    reg = "tail" if abs(x) > 5 else "body"
    if not (isinstance(got, (int, float)) and math.isfinite(got)):
        ctx.violation(pre + name + "/finite", kind, payload, dict(x=x, t=t, got=repr(got)), None, reg)
        return
    if name in ("v", "w"):
        den = Phi(X - T)
        ex = V_exact(X, T) if name == "v" else W_exact(X, T)
        if name == "v" and got < 0:
            ctx.violation(pre + "v/negative", kind, payload, dict(x=x, t=t, got=got), None, reg)
        if name == "w":
            s = 1e-13 / t
            ctx.frac("w_excess/slack", max(got - 1, -got, 0) / s)
            if not (-s <= got <= 1 + s):
                ctx.violation(pre + "w/range", kind, payload, dict(x=x, t=t, got=got, slack=s), None, reg)
        err = abs(M(got) - ex)
        if den >= MEPS * (1 + M("1e-9")):
            ctx.bucket("branch", f"{name}/exact")
            if ex > M("1e-300"):
                ctx.frac(f"{name}_rel/1e-6", float(err / ex) / 1e-6)
            if err > M("1e-6") * abs(ex) + M("1e-300"):
                ctx.violation(pre + name + "/exact", kind, payload, dict(x=x, t=t, got=got, want=float(ex)), None, reg)
        elif den <= MEPS * (1 - M("1e-9")):
            ctx.bucket("branch", f"{name}/asymptotic")
            ctx.frac(f"{name}_asym_rel/2%", float(err / abs(ex)) / 0.02)
            if err > M("0.02") * abs(ex):
                ctx.violation(pre + name + "/asymptotic", kind, payload, dict(x=x, t=t, got=got, want=float(ex)), None, reg)
        else:
            ctx.bucket("branch", f"{name}/sliver")
            if err > M("0.02") * abs(ex):
                ctx.violation(pre + name + "/sliver", kind, payload, dict(x=x, t=t, got=got, want=float(ex)), None, reg)
    elif name == "vt":
        ex = Vt_exact(X, T)
        err = abs(M(got) - ex)
        ctx.frac("vt_err/2t", float(err / (2 * T)))
        ctx.bucket("branch", "vt/" + ("asymptotic" if band(X, T) < M("1e-5") else "exact"))
        if err > 2 * T:
            ctx.violation(pre + "vt", kind, payload, dict(x=x, t=t, got=got, want=float(ex), err=float(err)), None, reg)
    elif name == "wt":
        ex = Wt_exact(X, T)
        err = abs(M(got) - ex)
        allow = 20 * T + M("1e-13") / T
        s = 1e-13 / t
        ctx.frac("wt_err/allow", float(err / allow))
        ctx.frac("wt_excess/slack", max(got - 1, -got, 0) / s)
        b = band(X, T)
        ctx.bucket("branch", "wt/" + ("saturated" if b < MEPS else ("small-band" if b < M("1e-5") else "exact")))
        if not (-s <= got <= 1 + s):
            ctx.violation(pre + "wt/range", kind, payload, dict(x=x, t=t, got=got, slack=s), None, reg)
        if err > allow:
            ctx.violation(pre + "wt", kind, payload, dict(x=x, t=t, got=got, want=float(ex), err=float(err)), None, reg)


def probe_pt(ctx, payload):
    x, t, y = payload["x"], payload["t"], payload["y"]
    for name in ("v", "w", "vt", "wt"):
        try:
            got = _F[name](x, t)
        except Exception as e:  # noqa: BLE001
            ctx.ev(name)
            ctx.violation(name + "/exception", "pt", payload, dict(x=x, t=t, exc=repr(e)), None, "exc")
            continue
        judge(ctx, "pt", payload, name, x, t, got)
    try:
        judge(ctx, "pt", payload, "phi_major", y, 0.0, _F["phi_major"](y))
    except Exception as e:  # noqa: BLE001
        ctx.ev("phi")
        ctx.violation("phi/exception", "pt", payload, dict(y=y, exc=repr(e)), None, "exc")
    if payload.get("near"):
        ctx.ev("threshold-neighbourhood")
        ctx.bucket("threshold", payload["near"])
    ctx.bucket("t_decade", int(math.floor(math.log10(t))))
    ctx.case([x, t], abs(x) <= 9 or bool(payload.get("near")))
    if len(ctx.samples) < 3 and payload.get("near") and ctx.rng.random() < 0.01:
        ctx.sample(dict(x=x, t=t, near=payload["near"], v=_F["v"](x, t), w=_F["w"](x, t), vt=_F["vt"](x, t), wt=_F["wt"](x, t)))


def probe_game(ctx, payload):
    """rate a TM game with the contracts attached to the names the TM modules imported"""
    seen = []

    def obs(name, args, result):
        if name == "phi_major":
            return
        seen.append((name, args, result))

    wrap_corrections(obs)
    before = dict(CORR_COUNTS)
    run_case(payload["case"])
    wrap_corrections(None)
    ctx.count("in_situ_calls_seen", len(seen))
    if not seen and any(CORR_COUNTS.get(k, 0) == before.get(k, 0) for k in ("v", "vt")):
        ctx.count("in_situ_rebinding_missed")
    for name, args, result in seen[:24]:
        if len(args) == 2:
            judge(ctx, "game", payload, name, float(args[0]), float(args[1]), result, insitu=True)
    ctx.case(payload["case"], bool(seen))


def probe_lat(ctx, payload):
    t = payload["t"]
    seen = {}
    for x in payload["xs"]:
        for name in ("v", "w", "vt", "wt", "phi_major"):
            if name == "phi_major" and not (-37.5 <= x <= 38):
                continue
            try:
                got = _F[name](x, t) if name != "phi_major" else _F[name](x)
            except Exception as e:  # noqa: BLE001
                ctx.ev(name if name != "phi_major" else "phi")
                ctx.violation(name + "/exception", "lat", payload, dict(x=x, t=t, exc=repr(e)), None, "exc")
                continue
            judge(ctx, "lat", payload, name, x, t, got)
            key = (name, x, math.copysign(1.0, x))
            if key in seen:
                ctx.ev("repeat/same-value")
                if float(seen[key]).hex() != float(got).hex():
                    ctx.violation("repeat/same-value", "lat", payload, dict(function=name, x=x, t=t, first=seen[key], again=got), None, "history")
            else:
                seen[key] = got
        ctx.case([x, t, "lat"], abs(x) <= 9)
    ctx.bucket("lattice_walks", "t_decade=%d" % int(math.floor(math.log10(t))))


PROBES = {"pt": probe_pt, "game": probe_game, "lat": probe_lat}
