"""C11 - predict_rank ranks agree with its probabilities and complement predict_draw."""
import math

from ..predprobe import gen_pred_case, call_pred, in01, alias_clause, inplace_clause, scribble
from ..rateprobe import exc_detail
from ..util import KIND
from ..refmodel import ref_predict

PROPERTY = "C11"
PYTEST_PREFIX = "C11/"
TECHNIQUE = "runtime monitoring: contract monitor on predict_rank + shadow call of predict_draw + closed-form input-order check"
LEVEL = "exploration"
RULE = ("Contract on the real predict_rank: one (int rank in 1..n, prob in [0,1]) pair per team in input order; p_i>p_j "
        "implies rank_i<rank_j; p_i==p_j implies equal ranks; the arg-max has rank 1; for n>=3 sum(p)+predict_draw is "
        "within 1e-12 of 1 (shadow call of the real predict_draw); 'input order': the probability at position i is the "
        "one the closed form gives for team i (1e-9). Workload includes exactly identical and partly identical teams "
        "(two- and three-way probability ties). Non-trivial: a probability tie is present or n>=3; distinct by hash.")
ASSUMPTIONS = ["mpmath closed form (C12) used only for the input-order clause"]
REACH = ["predict_rank", "_rank_data", "_arg_sort", "predict_draw"]


def floors(tier):
    q = tier == "quick"
    return {"shape": 10000 if q else 500000, "rank-order": 10000 if q else 500000, "sum-with-draw": 6000 if q else 300000,
            "prob-tie": 1500 if q else 75000, "input-order": 10000 if q else 500000}


def generate(ctx):
    n = ctx.budget(16000, 750000)
    for _ in range(n):
        r = ctx.rng.random()
        if r < 0.2:
            case, meta = gen_pred_case(ctx.rng, regime="identical")
        else:
            case, meta = gen_pred_case(ctx.rng)
        yield "pr", dict(case=case, meta=meta)


def probe_pr(ctx, payload):
    case, meta = payload["case"], payload["meta"]
    model, kind = case["model"], KIND[case["model"]]
    teams = case["teams"]
    k = len(teams)
    reg = f"{meta['regime']}/n={'2' if k == 2 else '3+'}"
    o = call_pred(case, "predict_rank")
    if o.exc is not None:
        ctx.ev("no-return")
        ctx.violation("no-return", "pr", payload, dict(exc=exc_detail(o.exc)), model, reg)
        return
    res = o.res
    ctx.bucket("n_teams", k)
    ctx.bucket("regime", meta["regime"])
    ctx.ev("shape")
    ok = isinstance(res, list) and len(res) == k and all(
        isinstance(x, tuple) and len(x) == 2 and isinstance(x[0], int) and not isinstance(x[0], bool)
        and 1 <= x[0] <= k and in01(x[1]) for x in res)
    if not ok:
        ctx.violation("shape", "pr", payload, dict(result=repr(res)[:300]), model, reg)
        return
    rs = [x[0] for x in res]
    ps = [x[1] for x in res]
    alias_clause(ctx, "pr", payload, case, "predict_rank", res, model, reg)
    inplace_clause(ctx, "pr", payload, case, "predict_rank", model, reg)
    ctx.ev("rank-order")
    bad = None
    for i in range(k):
        for j in range(k):
            if ps[i] > ps[j] and not rs[i] < rs[j]:
                bad = bad or dict(what="larger probability without better rank", i=i, j=j)
            if ps[i] == ps[j] and rs[i] != rs[j]:
                bad = bad or dict(what="equal probabilities with different ranks", i=i, j=j)
    if rs[max(range(k), key=lambda i: ps[i])] != 1:
        bad = bad or dict(what="most likely team does not have rank 1")
    if bad:
        bad["result"] = res
        ctx.violation("rank-order", "pr", payload, bad, model, reg)
    ties = k - len(set(ps))
    if ties:
        ctx.ev("prob-tie")
        sizes = sorted(ps.count(p) for p in set(ps))
        ctx.bucket("prob_tie_shape", "x".join(map(str, sizes)))
    if k >= 3:
        od = call_pred(case, "predict_draw")
        ctx.ev("sum-with-draw")
        if od.exc is not None or not isinstance(od.res, float):
            ctx.violation("sum-with-draw", "pr", payload, dict(exc=exc_detail(od.exc) if od.exc else repr(od.res)), model, reg)
        else:
            tot = math.fsum(ps) + od.res
            ctx.frac("sum+draw-1/1e-12", abs(tot - 1) / 1e-12)
            if abs(tot - 1) > 1e-12:
                ctx.violation("sum-with-draw", "pr", payload, dict(sum_p=math.fsum(ps), draw=od.res, total=tot), model, reg)
    # input order
    _, rr, _ = ref_predict(case["cfg"]["beta"], [[(p[0], p[1]) for p in t] for t in teams])
    ctx.ev("input-order")
    for i in range(k):
        if abs(ps[i] - rr[i]) > 1e-9:
            ctx.violation("input-order", "pr", payload, dict(team=i, got=ps[i], want=float(rr[i]), result=res), model, reg)
            break
    ctx.case(case, ties > 0 or k >= 3)
    res = list(res)
    scribble(o.res)  # the returned list belongs to the caller
    if (ties or k >= 3) and len(ctx.samples) < 3 and ctx.rng.random() < 0.01:
        ctx.sample(dict(case=case, predict_rank=res))


PROBES = {"pr": probe_pr}
