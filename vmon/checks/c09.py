"""C09 - predict_win is a probability distribution that respects symmetry and skill."""
import math

from .. import gen
from ..predprobe import gen_pred_case, call_pred, in01, alias_clause, inplace_clause, scribble
from ..rateprobe import exc_detail
from ..util import KIND, EPS

PROPERTY = "C09"
PYTEST_PREFIX = "C09/"
TECHNIQUE = "runtime monitoring: contract monitor + shadow executions (permutation, aliasing, single-player increments, in-place edit vs fresh)"
LEVEL = "exploration"
RULE = ("Contract + shadow executions on the real predict_win: one number per team, each in [0,1] (4 ulp), sum within "
        "1e-12 of 1; a random permutation of teams (and of players within teams) permutes the result (1e-12); identical "
        "teams get equal entries (1e-12) and two identical teams exactly (0.5, 0.5); raising one member's mu by "
        "1ulp/1e-6beta/beta/10beta never lowers the own team's probability nor raises another's (8 ulp). Non-trivial: "
        "n>=3 teams, or the increment changed the result; distinct by hash of (game, shadow transformation).")
ASSUMPTIONS = ["8 ulp slack on monotonicity, 1e-12 absolute on symmetry clauses"]
REACH = ["predict_win", "_calculate_team_ratings", "phi_major"]


def floors(tier):
    q = tier == "quick"
    return {"range+sum": 10000 if q else 1600000, "permutation": 10000 if q else 1600000,
            "monotone": 10000 if q else 1600000, "identical": 1500 if q else 240000, "two-identical-half": 300 if q else 48000}


def generate(ctx):
    n = ctx.budget(16000, 2400000)
    for _ in range(n):
        case, meta = gen_pred_case(ctx.rng)
        k = len(case["teams"])
        perm = list(range(k))
        ctx.rng.shuffle(perm)
        pp = []
        for i in perm:
            p = list(range(len(case["teams"][i])))
            ctx.rng.shuffle(p)
            pp.append(p)
        ti = ctx.rng.randrange(k)
        pj = ctx.rng.randrange(len(case["teams"][ti]))
        inc = ctx.rng.choice(["ulp", 1e-6, 1.0, 10.0, 0.1])
        yield "pw", dict(case=case, meta=meta, perm=perm, pperm=pp, inc=[ti, pj, inc])
    for _ in range(max(1, n // 40)):
        # two identical teams
        case, meta = gen_pred_case(ctx.rng, regime="identical", kmax=2)
        yield "pw", dict(case=case, meta=meta, perm=[1, 0], pperm=[list(range(len(t))) for t in case["teams"]],
                         inc=[0, 0, 1.0])


def probe_pw(ctx, payload):
    case, meta = payload["case"], payload["meta"]
    model, kind = case["model"], KIND[case["model"]]
    teams = case["teams"]
    k = len(teams)
    reg = f"{meta['regime']}/n={'2' if k == 2 else '3+'}"
    o = call_pred(case, "predict_win")
    if o.exc is not None:
        ctx.ev("no-return")
        ctx.violation("no-return", "pw", payload, dict(exc=exc_detail(o.exc)), model, reg)
        return
    w = o.res
    ctx.bucket("n_teams", k)
    ctx.bucket("regime", meta["regime"])
    ctx.ev("range+sum")
    if not (isinstance(w, list) and len(w) == k and all(in01(x) for x in w)):
        ctx.violation("range", "pw", payload, dict(result=repr(w)[:300]), model, reg)
        return
    if abs(math.fsum(w) - 1) > 1e-12:
        ctx.violation("sum", "pw", payload, dict(sum=math.fsum(w), result=w), model, reg)
    ctx.frac("sum_minus_1/1e-12", abs(math.fsum(w) - 1) / 1e-12)
    alias_clause(ctx, "pw", payload, case, "predict_win", w, model, reg)
    inplace_clause(ctx, "pw", payload, case, "predict_win", model, reg)
    # permutation
    perm, pp = payload["perm"], payload["pperm"]
    t2 = [[teams[i][j] for j in pj] for i, pj in zip(perm, pp)]
    o2 = call_pred(case, "predict_win", t2)
    ctx.ev("permutation")
    if o2.exc is not None or not isinstance(o2.res, list) or len(o2.res) != k:
        ctx.violation("permutation", "pw", payload, dict(exc=exc_detail(o2.exc) if o2.exc else repr(o2.res)[:200]), model, reg)
    else:
        d = max(abs(o2.res[newi] - w[i]) for newi, i in enumerate(perm))
        ctx.frac("perm_diff/1e-12", d / 1e-12)
        if d > 1e-12:
            ctx.violation("permutation", "pw", payload, dict(base=w, permuted=o2.res, perm=perm), model, reg)
    # identical teams
    keyed = {}
    for i, t in enumerate(teams):
        keyed.setdefault(tuple(sorted((p[0], p[1]) for p in t)), []).append(i)
    for grp in keyed.values():
        if len(grp) >= 2:
            ctx.ev("identical")
            vals = [w[i] for i in grp]
            if max(vals) - min(vals) > 1e-12:
                ctx.violation("identical", "pw", payload, dict(group=grp, values=vals), model, reg)
            same_order = all([(p[0], p[1]) for p in teams[i]] == [(p[0], p[1]) for p in teams[grp[0]]] for i in grp)
            if k == 2 and same_order:
                # exactly one half only for the SAME players in the SAME seating order: a mirrored line-up sums its mu in
                # another order, and the two totals may differ in the last bit
                ctx.ev("two-identical-half")
                if not (w[0] == 0.5 and w[1] == 0.5):
                    ctx.violation("two-identical-half", "pw", payload, dict(result=w), model, reg)
    # monotone in a member's mu
    ti, pj, inc = payload["inc"]
    beta = case["cfg"]["beta"]
    mu0 = teams[ti][pj][0]
    mu1 = math.nextafter(mu0, math.inf) if inc == "ulp" else mu0 + inc * beta
    t3 = [[list(p) for p in t] for t in teams]
    t3[ti][pj][0] = mu1
    o3 = call_pred(case, "predict_win", t3)
    ctx.ev("monotone")
    changed = False
    if o3.exc is not None or not isinstance(o3.res, list) or len(o3.res) != k:
        ctx.violation("monotone", "pw", payload, dict(exc=exc_detail(o3.exc) if o3.exc else repr(o3.res)[:200]), model, reg)
    else:
        slack = 8 * EPS
        bad = None
        for i in range(k):
            if i == ti and o3.res[i] < w[i] - slack:
                bad = dict(team=i, own=True, before=w[i], after=o3.res[i])
            if i != ti and o3.res[i] > w[i] + slack:
                bad = dict(team=i, own=False, before=w[i], after=o3.res[i])
            changed = changed or o3.res[i] != w[i]
        ctx.bucket("increment", f"{inc}/{'changed' if changed else 'same'}")
        if bad:
            bad["inc"] = payload["inc"]
            ctx.violation("monotone", "pw", payload, bad, model, reg)
    ctx.case(dict(c=case, p=perm, i=payload["inc"]), k >= 3 or changed)
    if k >= 3 and len(ctx.samples) < 3 and ctx.rng.random() < 0.01:
        ctx.sample(dict(case=case, predict_win=list(w), permuted=list(o2.res or []), perm=perm,
                        after_increment=list(o3.res or []), inc=payload["inc"]))
    for r_ in (w, o2.res, o3.res):
        scribble(r_)  # returned lists belong to the caller: editing them must not influence any later call


PROBES = {"pw": probe_pw}
