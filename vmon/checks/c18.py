"""C18 - rating comparison operators order players exactly as ordinal() does."""
import math
import operator

from ..util import KIND, MODEL_NAMES, models

PROPERTY = "C18"
TECHNIQUE = "runtime monitoring: contract monitor over the rich-comparison operators vs ordinal(), incl. objects changed in place"
LEVEL = "exploration"
RULE = ("Contract monitor over the five rating classes: for pairs (a, b) of one class the results of < <= > >= must equal "
        "the same operator on a.ordinal() and b.ordinal(); ordinal(z) must equal mu - z*sigma (2 ulp) for z in "
        "{default 3, 0, 1, 2.5}; a==b iff mu and sigma both equal (and != its negation); sorted() of 2-50 ratings must be "
        "ordered by ordinal; foreign operands (ratings of the four other models, int, float, str, None, tuple, list, a "
        "model object) must raise ValueError for the four order operators in both operand orders and be unequal under ==. "
        "A third of the batches use operands that are instances of an application-side SUBCLASS of the rating class (left, right, both, two sibling subclasses; mixed leaderboards for sorted()): they are ratings of that model. Every third pair is re-checked after in-place changes of sigma and mu on the same objects (rate() itself "
        "updates ratings in place), so a stale cached ordinal is visible. The pair pool is engineered so that ordinals are exactly equal with different (mu, sigma) (dyadic rationals), "
        "equal with equal (mu, sigma), 1 ulp apart, negative, zero, and random. Non-trivial: a pair with exactly equal "
        "ordinals or a foreign operand; distinct by (class, values, operand kind).")
ASSUMPTIONS = ["ordinal(z) is evaluated as mu - z*sigma in double precision"]
REACH = ["__lt__", "__gt__", "__le__", "__ge__", "__eq__", "ordinal"]
OPS = {"<": operator.lt, "<=": operator.le, ">": operator.gt, ">=": operator.ge}


def floors(tier):
    q = tier == "quick"
    return {"order-op": 200000 if q else 40000000, "equal-ordinals": 20000 if q else 4000000, "foreign": 20000 if q else 4000000,
            "eq": 50000 if q else 10000000, "after-mutation": 50000 if q else 10000000, "subclass-operand": 10000 if q else 2000000, "ordinal": 50000 if q else 10000000, "sorted": 1500 if q else 300000}


def generate(ctx):
    n = ctx.budget(100000, 20000000)
    rng = ctx.rng
    per = 50
    for _ in range(max(1, n // per)):
        m = rng.choice(MODEL_NAMES)
        pairs = []
        for _ in range(per):
            r = rng.random()
            if r < 0.3:
                # equal ordinal (z = 3) with different (mu, sigma): dyadic rationals so the arithmetic is exact
                s1 = rng.randint(0, 64) / 8.0
                s2 = rng.randint(0, 64) / 8.0
                o = rng.randint(-200, 200) / 4.0
                a, b = (o + 3 * s1, s1), (o + 3 * s2, s2)
            elif r < 0.4:
                mu, s = rng.uniform(-50, 50), rng.uniform(0, 10)
                a, b = (mu, s), (mu, s)
            elif r < 0.55:
                mu, s = rng.uniform(-50, 50), rng.uniform(0.1, 10)
                a, b = (mu, s), (math.nextafter(mu, rng.choice([-math.inf, math.inf])), s)
            elif r < 0.65:
                a = (rng.choice([0.0, -0.0, 0, -1.0, 1.0]), rng.choice([0.0, 0, 1.0, 1 / 3]))
                b = (rng.choice([0.0, -0.0, 0, -1.0, 1.0]), rng.choice([0.0, 0, 1.0, 1 / 3]))
            elif r < 0.75:
                # same mu, different sigma / same sigma, different mu: catches mu-only or sigma-only comparisons
                mu, s = rng.uniform(-50, 50), rng.uniform(0.1, 10)
                a, b = rng.choice([((mu, s), (mu, s * 1.5)), ((mu, s), (mu + 1, s)), ((mu, s), (mu + 1.0, s + 1.0))])
            else:
                a = (rng.uniform(-100, 100), rng.uniform(0, 30))
                b = (rng.uniform(-100, 100), rng.uniform(0, 30))
            pairs.append([list(a), list(b)])
        yield "pairs", dict(model=m, pairs=pairs, z=rng.choice([None, 0, 1, 2.5, 3.0]),
                            sort_n=rng.randint(2, 50), sort_seed=rng.randrange(2 ** 30),
                            # operands that are instances of an application-side subclass of the rating class (they are
                            # ratings of that model): left, right, both of one subclass, two sibling subclasses
                            subclass=rng.choice([None, None, None, None, "a", "b", "both", "siblings"]))


def _foreign(Ms, model_name, mu, sigma):
    out = []
    for other in MODEL_NAMES:
        if other != model_name:
            out.append((f"rating of {KIND[other]}", Ms[other]().rating(mu, sigma)))
    out += [("int", 25), ("float", 25.0), ("str", "x"), ("None", None), ("tuple", (mu, sigma)), ("list", [mu, sigma]),
            ("model object", Ms[model_name]())]
    return out


def probe_pairs(ctx, payload):
    import random

    Ms = models()
    model_name = payload["model"]
    kind = KIND[model_name]
    model = Ms[model_name]()
    z = payload["z"]
    sub = payload.get("subclass")
    RC = type(model.rating())
    from ..util import make_sub

    mk_a = (lambda mu, s_, n: make_sub(RC, 0, mu, s_, n)) if sub in ("a", "both", "siblings") else None
    mk_b = (lambda mu, s_, n, w=(1 if sub == "siblings" else 0): make_sub(RC, w, mu, s_, n)) if sub in ("b", "both", "siblings") else None
    ctx.bucket("operand_classes", sub or "plain")
    for idx, (pa, pb) in enumerate(payload["pairs"]):
        a = model.rating(pa[0], pa[1], "a") if mk_a is None else mk_a(pa[0], pa[1], "a")
        b = model.rating(pb[0], pb[1], "b") if mk_b is None else mk_b(pb[0], pb[1], "b")
        if sub:
            ctx.ev("subclass-operand")
        try:
            oa, ob = a.ordinal(), b.ordinal()
        except Exception as e:  # noqa: BLE001
            ctx.ev("ordinal")
            ctx.violation("ordinal/exception", "pairs", payload, dict(pair=[pa, pb], exc=repr(e)), model_name, kind)
            continue
        equal_ord = oa == ob
        reg = f"{kind}/{'equal-ordinals' if equal_ord else 'different'}"
        for sym, fn in OPS.items():
            ctx.ev("order-op")
            if equal_ord:
                ctx.ev("equal-ordinals")
            try:
                got = fn(a, b)
            except Exception as e:  # noqa: BLE001
                ctx.violation(f"order-op/{sym}/exception", "pairs", payload, dict(pair=[pa, pb], exc=repr(e)), model_name, reg)
                continue
            want = fn(oa, ob)
            if got is not want:
                ctx.violation(f"order-op/{sym}", "pairs", payload, dict(pair=[pa, pb], ordinals=[oa, ob], got=repr(got), want=want),
                              model_name, reg)
        # ordinal formula
        ctx.ev("ordinal")
        for p, r in ((pa, a), (pb, b)):
            zz = 3.0 if z is None else z
            got = r.ordinal() if z is None else r.ordinal(z)
            want = p[0] - zz * p[1]
            if abs(got - want) > 2 * math.ulp(max(abs(want), abs(p[0]), abs(zz * p[1]), 5e-324)):
                ctx.violation("ordinal", "pairs", payload, dict(mu=p[0], sigma=p[1], z=z, got=got, want=want), model_name, kind)
        # equality
        ctx.ev("eq")
        want_eq = (pa[0] == pb[0] and pa[1] == pb[1])
        try:
            ge, gn = (a == b), (a != b)
        except Exception as e:  # noqa: BLE001
            ctx.violation("eq/exception", "pairs", payload, dict(pair=[pa, pb], exc=repr(e)), model_name, kind)
            ge, gn = want_eq, not want_eq
        if ge is not want_eq or gn is not (not want_eq):
            ctx.violation("eq", "pairs", payload, dict(pair=[pa, pb], eq=repr(ge), ne=repr(gn), want_eq=want_eq), model_name,
                          f"{kind}/{'equal-ordinals' if equal_ord else 'different'}")
        ctx.case([model_name, pa, pb, "pair"], equal_ord)
        # a deepcopy snapshot keeps the id: equality must still follow the VALUES once one of the two changes
        if idx % 3 == 1:
            import copy as _copy

            snap = _copy.deepcopy(a)
            ctx.ev("after-mutation")
            try:
                ok = (a == snap) is True and (a != snap) is False
                snap.sigma = pa[1] + 0.75
                ok = ok and (a == snap) is False and (a != snap) is True and (snap == a) is False
                snap.sigma = pa[1]
                snap.mu = pa[0] + 1.5
                ok = ok and (a == snap) is False and (a != snap) is True
                roster = _copy.deepcopy([[a, b]])
                roster[0][1].mu = pb[0] - 3.25
                ok = ok and (roster[0][1] == b) is False and (roster[0][0] == a) is True
                if not ok:
                    ctx.violation("after-mutation/eq-snapshot", "pairs", payload, dict(start=pa), model_name, kind)
            except Exception as e:  # noqa: BLE001
                ctx.violation("after-mutation/exception", "pairs", payload, dict(exc=repr(e)), model_name, kind)
        # the same objects after in-place changes (rate() itself updates ratings in place): ordinal() and the operators
        # must follow the CURRENT mu and sigma
        if idx % 3 == 0:
            for attr, newval in (("sigma", pa[1] + 1.25), ("mu", pa[0] - 2.5), ("sigma", pb[1])):
                setattr(a, attr, newval)
                ctx.ev("after-mutation")
                try:
                    want = a.mu - 3.0 * a.sigma
                    got = a.ordinal()
                    if abs(got - want) > 2 * math.ulp(max(abs(want), abs(a.mu), abs(3.0 * a.sigma), 5e-324)):
                        ctx.violation("after-mutation/ordinal", "pairs", payload,
                                      dict(start=pa, changed=attr, to=newval, ordinal=got, want=want), model_name, kind)
                        break
                    ob2 = b.ordinal()
                    for sym, fn in OPS.items():
                        if fn(a, b) is not fn(want, ob2) or fn(b, a) is not fn(ob2, want):
                            ctx.violation(f"after-mutation/{sym}", "pairs", payload,
                                          dict(start=[pa, pb], changed=attr, to=newval), model_name, kind)
                            break
                    if (a == b) is not (a.mu == b.mu and a.sigma == b.sigma):
                        ctx.violation("after-mutation/eq", "pairs", payload, dict(start=[pa, pb], changed=attr, to=newval), model_name, kind)
                except Exception as e:  # noqa: BLE001
                    ctx.violation("after-mutation/exception", "pairs", payload, dict(exc=repr(e)), model_name, kind)
                    break
        # foreign operands (a few per pair to keep the cost down)
        if idx % 5 == 0:
            for label, other in _foreign(Ms, model_name, pa[0], pa[1]):
                for sym, fn in OPS.items():
                    for left in (True, False):
                        ctx.ev("foreign")
                        try:
                            r = fn(a, other) if left else fn(other, a)
                            ctx.violation("foreign/no-raise", "pairs", payload,
                                          dict(op=sym, operand=label, rating_on_left=left, returned=repr(r)), model_name, f"{kind}/{label}")
                        except ValueError:
                            pass
                        except Exception as e:  # noqa: BLE001
                            ctx.violation("foreign/wrong-exception", "pairs", payload,
                                          dict(op=sym, operand=label, rating_on_left=left, exc=repr(e)), model_name, f"{kind}/{label}")
                ctx.ev("foreign")
                try:
                    e1, e2, n1 = (a == other), (other == a), (a != other)
                    if e1 is not False or e2 is not False or n1 is not True:
                        ctx.violation("foreign/eq", "pairs", payload, dict(operand=label, eq=repr(e1), req=repr(e2), ne=repr(n1)),
                                      model_name, f"{kind}/{label}")
                except Exception as e:  # noqa: BLE001
                    ctx.violation("foreign/eq-exception", "pairs", payload, dict(operand=label, exc=repr(e)), model_name, f"{kind}/{label}")
                ctx.case([model_name, pa, label], True)
    # sorted()
    rng = random.Random(payload["sort_seed"])
    pool = [p for pr in payload["pairs"] for p in pr]
    items = [model.rating(*rng.choice(pool)) for _ in range(payload["sort_n"])]
    if sub:  # a leaderboard that mixes plain ratings and instances of the application's subclasses
        items = [(make_sub(RC, i % 2, r.mu, r.sigma) if i % 3 else r) for i, r in enumerate(items)]
    ctx.ev("sorted")
    try:
        srt = sorted(items)
        ords = [r.ordinal() for r in srt]
        if any(x > y for x, y in zip(ords, ords[1:])) or sorted(id(x) for x in srt) != sorted(id(x) for x in items):
            ctx.violation("sorted", "pairs", payload, dict(ordinals=ords[:20]), model_name, kind)
        if max(items).ordinal() != max(r.ordinal() for r in items) or min(items).ordinal() != min(r.ordinal() for r in items):
            ctx.violation("sorted/minmax", "pairs", payload, dict(n=len(items)), model_name, kind)
    except Exception as e:  # noqa: BLE001
        ctx.violation("sorted/exception", "pairs", payload, dict(exc=repr(e)), model_name, kind)
    ctx.bucket("class", kind)
    if len(ctx.samples) < 3 and ctx.rng.random() < 0.02:
        ctx.sample(dict(model=model_name, z=z, pairs=payload["pairs"][:6]))


PROBES = {"pairs": probe_pairs}
