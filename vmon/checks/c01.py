"""C01 - rate() equals the published Weng-Lin posterior (reference-model monitor)."""
from .. import gen
from ..rateprobe import run_case, reference, updated, common_buckets, exc_detail, aim_at_floor_window
from ..util import MODEL_NAMES, KIND

PROPERTY = "C01"
TECHNIQUE = "runtime monitoring: reference-model monitor (independent mpmath evaluation) on every observed rate() return"
LEVEL = "exploration"
RULE = ("Random games over the stated box (5 models x configs x 8 regimes x every tie shape x rank/score/omitted "
        "encodings) plus every weak order for k<=4 on base games; each real rate() return is compared slot by slot "
        "with an independent 40-digit mpmath evaluation of the published update (tolerances T3/T4 of DESIGN.md). "
        "A case is non-trivial when some player's mu or sigma moved by more than 1e-6 of the prior sigma; distinct = "
        "distinct canonical hash of (model, config, game, outcome).")
ASSUMPTIONS = [
    "mpmath (40 digits) is the trusted base of the reference",
    "Thurstone-Mosteller partial pairing is defined with c_iq = 2*sqrt(s_i^2+s_q^2+2beta^2) (library definition)",
    "the gamma callback receives (c or c_iq, k, team mu, team sigma^2, team, 0-based competition rank)",
    "CPython/libm (exp, sqrt, erfc) are trusted",
]
REACH = ["_compute", "i_map", "od_reduce", "_c", "_sum_q", "_a", "_ladder_pairs", "v", "w", "vt", "wt", "rate",
         "_calculate_rankings", "_calculate_team_ratings", "_unwind", "_sorter"]
EXHAUSTIVE = ("all weak orders (3/13/75) of base games with k<=4 teams; the complete lattice of two single-player teams on a "
              "5x4 grid of boundary values (mu in {-20b,-b,0,b,20b}, sigma in {1e-4b,0.1b,2b,10b}) x all outcomes x five "
              "models (thorough: also a quarter of the three-team lattice); everything else is sampled")


def floors(tier):
    return {"ref/mu": 20000 if tier == "quick" else 1200000, "ref/sigma": 20000 if tier == "quick" else 1200000}


def generate(ctx):
    n = ctx.budget(12000, 800000)
    for _ in range(n):
        case, meta = gen.gen_case(ctx.rng)
        if ctx.rng.random() < 0.06:
            aimed = aim_at_floor_window(case, ctx.rng)
            if aimed is not None:
                case = aimed
                meta["aimed_at_floor_window"] = True
        yield "game", dict(case=case, meta=meta)
    # shape lattice: every tie-group composition for k = 5..8 teams x systematic team-size patterns (sharded)
    idx = 0
    for rep in range(1 if ctx.tier == "quick" else 12):
        for m in MODEL_NAMES:
            for k in (5, 6, 7, 8):
                idx += 1
                if idx % ctx.nshards != ctx.shard:
                    continue
                for case, meta in gen.shape_cases(ctx.rng, m, k):
                    yield "game", dict(case=case, meta=meta)
                ctx.count("shape_lattice_complete_k_x_model")
    # exhaustive weak orders on base games (sharded by base game index)
    nbase = 2 if ctx.tier == "quick" else 80
    idx = 0
    for m in MODEL_NAMES:
        for b in range(nbase):
            for k in (2, 3, 4):
                idx += 1
                if idx % ctx.nshards != ctx.shard:
                    continue
                if ctx.tier == "quick" and k == 4 and b > 0:
                    continue
                cfg = gen.gen_cfg(ctx.rng)
                teams, regime = gen.gen_teams(ctx.rng, cfg["beta"], kmin=k, kmax=k, pmax=3, default_rating=(cfg["mu"], cfg["sigma"]),
                                              regime=ctx.rng.choice(["typical", "wide", "mismatch", "identical"]))
                for lv in gen.all_weak_orders(k):
                    lv = list(lv)
                    sel, vals, style = gen.outcome_kwargs(ctx.rng, lv, style=ctx.rng.choice(["int", "int0", "neg"]))
                    case = dict(model=m, cfg=cfg, teams=teams, sel=sel, vals=vals, call={})
                    meta = dict(regime=regime, levels=lv, enc=style, ties=gen.tie_shape(lv), k=k, exhaustive=True)
                    yield "game", dict(case=case, meta=meta)
                ctx.count("exhaustive_base_games")
    # lattice: single-player teams on a grid of boundary values (exact equalities of mu and sigma, the ends of the
    # stated box), every outcome, every model, default configuration - enumerated completely for k = 2 in both tiers,
    # for k = 3 in the thorough tier (sharded by grid index)
    beta = 25.0 / 6.0
    mus = [-20 * beta, -beta, 0.0, beta, 20 * beta]
    sgs = [1e-4 * beta, 0.1 * beta, 2 * beta, 10 * beta]
    pts = [(m_, s_) for m_ in mus for s_ in sgs]
    cfg0 = dict(mu=25.0, sigma=25.0 / 3.0, beta=beta, kappa=1e-4, tau=25.0 / 300.0, limit_sigma=False, gamma="default")
    idx = 0
    for k in ((2,) if ctx.tier == "quick" else (2, 3)):
        orders = [list(o) for o in gen.all_weak_orders(k)]
        import itertools as _it

        for combo in _it.product(range(len(pts)), repeat=k):
            idx += 1
            if idx % ctx.nshards != ctx.shard:
                continue
            if k == 3 and (sum(combo) * 7 + combo[0]) % 4:
                continue  # every fourth grid point of the k = 3 lattice (the k = 2 lattice is complete)
            teams = [[[pts[c_][0], pts[c_][1], f"g{t_}"]] for t_, c_ in enumerate(combo)]
            for m in MODEL_NAMES:
                for lv in orders:
                    case = dict(model=m, cfg=cfg0, teams=teams, sel="ranks", vals=list(lv), call={})
                    meta = dict(regime="lattice", levels=lv, enc="int0/ranks", ties=gen.tie_shape(lv), k=k, exhaustive=True)
                    yield "game", dict(case=case, meta=meta)
        ctx.count(f"lattice_k{k}_shards_done")
    ctx.count("exhaustive_complete")


def probe_game(ctx, payload):
    case, meta = payload["case"], payload.get("meta", {})
    run = run_case(case)
    model = case["model"]
    if run.exc is not None:
        ctx.ev("no-return")
        ctx.violation("no-return", "game", payload, dict(exc=exc_detail(run.exc)), model, meta.get("regime"))
        return
    if run.shape_err:
        ctx.ev("shape")
        ctx.violation("shape", "game", payload, dict(err=run.shape_err), model, meta.get("regime"))
        return
    ref, info = reference(run)
    common_buckets(ctx, run, meta)
    tm = run.kind in ("TMF", "TMP")
    if tm:
        for k_ in ("asym_v", "exact_v", "asym_vt", "exact_vt"):
            if info[k_]:
                ctx.bucket("tm_regime", f"{run.kind}/{k_}", info[k_])
    if info["floor"]:
        gname = run.cfg["gamma"].split(":")[0]
        ctx.bucket("kappa_floor_hit", f"{run.kind}/gamma={gname}", info["floor"])
        if info.get("floor_window"):
            ctx.bucket("kappa_floor_window_0_to_kappa", run.kind, info["floor_window"])
    tight = not (info["asym_v"] or info["asym_vt"])
    ctx.count("tight_cases" if tight else "asymptotic_cases")
    bad = None
    for i, (rrow, grow) in enumerate(zip(ref, run.res)):
        for j, (r, (mu, sg)) in enumerate(zip(rrow, grow)):
            ctx.ev("ref/mu")
            ctx.ev("ref/sigma")
            em = abs(mu - r["mu"])
            ctx.frac(f"mu/{run.kind}", em / r["mu_tol"] if r["mu_tol"] > 0 else 0)
            if not (em <= r["mu_tol"]):
                bad = bad or dict(slot=[i, j], what="mu", got=mu, want=float(r["mu"]), tol=float(r["mu_tol"]))
            half = max(r["sig_hi"] - r["sig"], r["sig"] - r["sig_lo"])
            ctx.frac(f"sigma/{run.kind}", abs(sg - r["sig"]) / half if half > 0 else 0)
            if not (r["sig_lo"] <= sg <= r["sig_hi"]):
                bad = bad or dict(slot=[i, j], what="sigma", got=sg, want=float(r["sig"]),
                                  lo=float(r["sig_lo"]), hi=float(r["sig_hi"]))
    nt = updated(run)
    ctx.case(payload["case"], nt)
    if bad:
        bad["ties"] = meta.get("ties")
        bad["enc"] = meta.get("enc")
        ctx.violation("ref/" + bad["what"], "game", payload, bad, model, _regime(meta, info, case))
    elif nt and len(ctx.samples) < 3 and ctx.rng.random() < 0.05:
        ctx.sample(dict(case=case, meta=meta, result=run.res))


def _regime(meta, info, case=None):
    r = meta.get("ties", "?")
    vals = (case or {}).get("vals") or []
    f = "float" if any(isinstance(v, float) for v in vals) else "int"
    return f"{r}/{f}/{'asym' if (info['asym_v'] or info['asym_vt']) else 'exact'}"


PROBES = {"game": probe_game}
