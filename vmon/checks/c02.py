"""C02 - the result of rate() corresponds to its input position by position, player by player."""
from .. import gen
from ..rateprobe import run_case, reference, updated, common_buckets, exc_detail

PROPERTY = "C02"
PYTEST_PREFIX = "C02/"
TECHNIQUE = "runtime monitoring: contract/frame monitor with pre-call snapshots (shape, identity, input consistency) + reference placement matching"
LEVEL = "exploration"
RULE = ("Games whose players all carry unique names (values distinct in most regimes; a quarter of the games use teams "
        "with IDENTICAL values, where only identity can tell players apart); every real rate() return is checked against "
        "a pre-call snapshot: same nesting, id and name per slot, pairwise distinct result objects, numbers at (i,j) inside "
        "10x the C01 tolerance box of THAT slot or else not a re-arrangement of the reference posteriors (a re-arrangement "
        "is the violation; numbers that fit no arrangement are C01's business), and inputs afterwards all untouched or all "
        "equal to the returned rating of the same player. Non-trivial: the outcome vector is not "
        "already sorted (un-sorting did work) or limit_sigma bound on some slot; distinct by canonical hash.")
ASSUMPTIONS = ["players of one game are distinct objects (the library mutates its arguments in place)",
               "mpmath reference as in C01 (used at 10x tolerance: this check is about placement)"]
REACH = ["rate", "_unwind", "_sorter", "__deepcopy__"]


def floors(tier):
    q = tier == "quick"
    return {"shape": 3000 if q else 360000, "identity": 3000 if q else 360000, "placement": 10000 if q else 1200000,
            "inputs-consistent": 3000 if q else 360000}


def generate(ctx):
    n = ctx.budget(8000, 720000)
    for _ in range(n):
        regime = ctx.rng.choice(["round_numbers", "coincidences", "typical", "wide", "equal_size", "equal_size", "huge_sigma", "mismatch", "tiny_sigma",
                                 "identical", "identical"])
        case, meta = gen.gen_case(ctx.rng, regime=regime)
        if ctx.rng.random() < 0.5:
            # make limit_sigma likely to bind: large tau relative to sigma
            case["cfg"]["tau"] = case["cfg"]["beta"] * ctx.rng.choice([1, 3, 10])
            case["call"]["limit_sigma"] = True
        if ctx.rng.random() < 0.06:
            # "certain" players: sigma exactly 0 next to a team-mate with positive sigma (their share of the update is 0);
            # also with an effective tau of 0
            for t in case["teams"]:
                if len(t) >= 2:
                    t[ctx.rng.randrange(1, len(t))][1] = 0.0
            if ctx.rng.random() < 0.5:
                case["call"]["tau"] = 0
            meta["certain_players"] = True
        yield "game", dict(case=case, meta=meta)


def probe_game(ctx, payload):
    case, meta = payload["case"], payload.get("meta", {})
    run = run_case(case)
    model = case["model"]
    reg = f"{meta.get('ties')}/{'sorted' if _sorted(case) else 'unsorted'}"
    if run.exc is not None:
        ctx.ev("no-return")
        ctx.violation("no-return", "game", payload, dict(exc=exc_detail(run.exc)), model, reg)
        return
    ctx.ev("shape")
    if run.shape_err:
        ctx.violation("shape", "game", payload, dict(err=run.shape_err), model, reg)
        return
    common_buckets(ctx, run, meta)
    if meta.get("certain_players"):
        ctx.count("games_with_sigma0_players")
    res = run.obs.res
    # identity: id and name at each slot; all result objects distinct
    ctx.ev("identity")
    seen = set()
    for i, (tp, tr) in enumerate(zip(run.pre, res)):
        for j, (s, p) in enumerate(zip(tp, tr)):
            if p.id != s["id"] or p.name != s["name"]:
                ctx.violation("identity", "game", payload,
                              dict(slot=[i, j], want=[s["id"], s["name"]], got=[p.id, p.name]), model, reg)
                return
            if id(p) in seen:
                ctx.violation("identity/duplicate-object", "game", payload, dict(slot=[i, j]), model, reg)
                return
            seen.add(id(p))
    # placement: numbers at (i, j) are the posterior of the player passed at (i, j).  This clause is about WHERE numbers
    # end up, not about their last digits (C01 judges those): a slot outside its own 10x box is a placement violation
    # only if the returned numbers, taken as a multiset, are the reference posteriors in some other arrangement
    # (every returned pair fits the 10x box of some slot, one-to-one).  Numbers that fit no arrangement are counted as
    # 'numeric_mismatch_not_placement' and left to C01/C06.
    ref, info = reference(run)
    binding = 0
    flat_ref = [(i, j, r) for i, rrow in enumerate(ref) for j, r in enumerate(rrow)]
    flat_got = [(i, j, g) for i, grow in enumerate(run.res) for j, g in enumerate(grow)]

    def fits(g, r):
        lo = r["sig"] - 10 * (r["sig"] - r["sig_lo"])
        hi = r["sig"] + 10 * (r["sig_hi"] - r["sig"])
        return abs(g[0] - r["mu"]) <= 10 * r["mu_tol"] and lo <= g[1] <= hi

    own_bad = []
    for (i, j, g), (_, _, r) in zip(flat_got, flat_ref):
        ctx.ev("placement")
        if not fits(g, r):
            own_bad.append((i, j))
        if run.limit and g[1] == run.pri[i][j][1]:
            binding += 1
    if own_bad:
        # bipartite matching result-slot -> reference-slot (augmenting paths; at most 64 slots)
        adj = [[b for b, (_, _, r) in enumerate(flat_ref) if fits(g, r)] for (_, _, g) in flat_got]
        match = {}

        def aug(a, seen):
            for b in adj[a]:
                if b in seen:
                    continue
                seen.add(b)
                if b not in match or aug(match[b], seen):
                    match[b] = a
                    return True
            return False

        perfect = all(aug(a, set()) for a in range(len(flat_got)))
        if perfect:
            moved = [[list(flat_got[a][:2]), list(flat_ref[b][:2])] for b, a in match.items() if a != b][:6]
            i, j = own_bad[0]
            ctx.violation("placement", "game", payload,
                          dict(slot=[i, j], got=list(run.res[i][j]), want=[float(ref[i][j]["mu"]), float(ref[i][j]["sig"])],
                               result_slot_matches_reference_slot=moved), model, reg)
            return
        ctx.count("numeric_mismatch_not_placement")
    # inputs afterwards: all untouched, or all equal to the returned rating of the same player
    ctx.ev("inputs-consistent")
    untouched = mutated = other = 0
    flatres = [p for t in res for p in t]
    for s, a, p in zip([s for t in run.pre for s in t], [x for t in run.teams for x in t], flatres):
        same_as_pre = (a.mu == s["mu"] and a.sigma == s["sigma"])
        same_as_res = (a.mu == p.mu and a.sigma == p.sigma)
        if same_as_res and same_as_pre:
            continue  # nothing moved for this player: compatible with both
        if same_as_res:
            mutated += 1
        elif same_as_pre:
            untouched += 1
        else:
            other += 1
    if other or (untouched and mutated):
        ctx.violation("inputs-consistent", "game", payload,
                      dict(untouched=untouched, equal_to_result=mutated, neither=other), model, reg)
        return
    ctx.bucket("inputs_after", "mutated-in-place" if mutated else ("untouched" if untouched else "no-change"))
    nt = (not _sorted(case)) or binding > 0
    if binding:
        ctx.count("limit_sigma_binding_slots", binding)
    if not _sorted(case):
        ctx.count("unsorted_outcome_vectors")
    ctx.case(case, nt)
    if nt and len(ctx.samples) < 3 and ctx.rng.random() < 0.03:
        ctx.sample(dict(case=case, meta=meta, result=run.res))


def _sorted(case):
    if case.get("sel") is None:
        return True
    v = case["vals"] if case["sel"] == "ranks" else [-x for x in case["vals"]]
    return all(v[i] <= v[i + 1] for i in range(len(v) - 1))


PROBES = {"game": probe_game}
