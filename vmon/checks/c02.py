"""C02 - the result of rate() corresponds to its input position by position, player by player."""
from .. import gen
from ..rateprobe import run_case, reference, updated, common_buckets, exc_detail

PROPERTY = "C02"
PYTEST_PREFIX = "C02/"
LEVEL = "exploration"
RULE = ("Games whose players are all distinct in (mu, sigma, name); every real rate() return is checked against a "
        "pre-call snapshot: same nesting, id and name per slot, pairwise distinct result objects, numbers at (i,j) "
        "inside 10x the C01 tolerance box of THAT slot (reference evaluated once per call), and inputs afterwards all "
        "untouched or all equal to the returned rating of the same player. Non-trivial: the outcome vector is not "
        "already sorted (un-sorting did work) or limit_sigma bound on some slot; distinct by canonical hash.")
ASSUMPTIONS = ["players of one game are distinct objects (the library mutates its arguments in place)",
               "mpmath reference as in C01 (used at 10x tolerance: this check is about placement)"]
REACH = ["rate", "_unwind", "_sorter", "__deepcopy__"]


def floors(tier):
    q = tier == "quick"
    return {"shape": 3000 if q else 60000, "identity": 3000 if q else 60000, "placement": 10000 if q else 200000,
            "inputs-consistent": 3000 if q else 60000}


def generate(ctx):
    n = ctx.budget(8000, 120000)
    for _ in range(n):
        regime = ctx.rng.choice(["typical", "wide", "equal_size", "equal_size", "huge_sigma", "mismatch", "tiny_sigma"])
        case, meta = gen.gen_case(ctx.rng, regime=regime)
        if ctx.rng.random() < 0.5:
            # make limit_sigma likely to bind: large tau relative to sigma
            case["cfg"]["tau"] = case["cfg"]["beta"] * ctx.rng.choice([1, 3, 10])
            case["call"]["limit_sigma"] = True
        yield "game", dict(case=case, meta=meta)


def probe_game(ctx, payload):
    case, meta = payload["case"], payload.get("meta", {})
    run = run_case(case)
    model = case["model"]
    reg = f"{meta.get('ties')}/{'sorted' if _sorted(case) else 'unsorted'}"
    if run.exc is not None:
        ctx.ev("no-return")
        ctx.violation("no-return", "game", payload, dict(exc=exc_detail(run.exc)), model, reg)
        return
    ctx.ev("shape")
    if run.shape_err:
        ctx.violation("shape", "game", payload, dict(err=run.shape_err), model, reg)
        return
    common_buckets(ctx, run, meta)
    res = run.obs.res
    # identity: id and name at each slot; all result objects distinct
    ctx.ev("identity")
    seen = set()
    for i, (tp, tr) in enumerate(zip(run.pre, res)):
        for j, (s, p) in enumerate(zip(tp, tr)):
            if p.id != s["id"] or p.name != s["name"]:
                ctx.violation("identity", "game", payload,
                              dict(slot=[i, j], want=[s["id"], s["name"]], got=[p.id, p.name]), model, reg)
                return
            if id(p) in seen:
                ctx.violation("identity/duplicate-object", "game", payload, dict(slot=[i, j]), model, reg)
                return
            seen.add(id(p))
    # placement: numbers at (i, j) are the posterior of the player passed at (i, j)
    ref, info = reference(run)
    binding = 0
    for i, (rrow, grow) in enumerate(zip(ref, run.res)):
        for j, (r, (mu, sg)) in enumerate(zip(rrow, grow)):
            ctx.ev("placement")
            lo = r["sig"] - 10 * (r["sig"] - r["sig_lo"])
            hi = r["sig"] + 10 * (r["sig_hi"] - r["sig"])
            if not (abs(mu - r["mu"]) <= 10 * r["mu_tol"]) or not (lo <= sg <= hi):
                ctx.violation("placement", "game", payload,
                              dict(slot=[i, j], got=[mu, sg], want=[float(r["mu"]), float(r["sig"])],
                                   mu_tol10=float(10 * r["mu_tol"]), sig_box10=[float(lo), float(hi)]), model, reg)
                return
            if run.limit and sg == run.pri[i][j][1]:
                binding += 1
    # inputs afterwards: all untouched, or all equal to the returned rating of the same player
    ctx.ev("inputs-consistent")
    untouched = mutated = other = 0
    flatres = [p for t in res for p in t]
    for s, a, p in zip([s for t in run.pre for s in t], [x for t in run.teams for x in t], flatres):
        same_as_pre = (a.mu == s["mu"] and a.sigma == s["sigma"])
        same_as_res = (a.mu == p.mu and a.sigma == p.sigma)
        if same_as_res and same_as_pre:
            continue  # nothing moved for this player: compatible with both
        if same_as_res:
            mutated += 1
        elif same_as_pre:
            untouched += 1
        else:
            other += 1
    if other or (untouched and mutated):
        ctx.violation("inputs-consistent", "game", payload,
                      dict(untouched=untouched, equal_to_result=mutated, neither=other), model, reg)
        return
    ctx.bucket("inputs_after", "mutated-in-place" if mutated else ("untouched" if untouched else "no-change"))
    nt = (not _sorted(case)) or binding > 0
    if binding:
        ctx.count("limit_sigma_binding_slots", binding)
    if not _sorted(case):
        ctx.count("unsorted_outcome_vectors")
    ctx.case(case, nt)
    if nt and len(ctx.samples) < 3 and ctx.rng.random() < 0.03:
        ctx.sample(dict(case=case, meta=meta, result=run.res))


def _sorted(case):
    if case.get("sel") is None:
        return True
    v = case["vals"] if case["sel"] == "ranks" else [-x for x in case["vals"]]
    return all(v[i] <= v[i + 1] for i in range(len(v) - 1))


PROBES = {"game": probe_game}
