"""C03 - outcomes are ordinal: only order and equality of ranks/scores matter (shadow execution)."""
from .. import gen
from ..rateprobe import run_case, updated, common_buckets, exc_detail

PROPERTY = "C03"
TECHNIQUE = "runtime monitoring: shadow-execution (relational) monitor, bit equality across encodings of one weak order"
LEVEL = "exploration"
RULE = ("For each base game (dense integer ranks 0..L-1) the real rate() is re-run on fresh objects with the same "
        "(mu, sigma) under 5-8 other encodings of the same weak order: strictly increasing relabellings into ints, "
        "floats, mixed int/float (the same level written 1 for one team and 1.0 for another), bools, huge ints, "
        "-0.0/0.0, 1e308-magnitude and denormal floats, each as ranks and negated as scores, and omission when the "
        "order is the identity. Oracle: bit equality of every returned mu and sigma. Non-trivial: (the base outcome "
        "has a tie and the shadow encoding contains a float) or the relabelling is non-affine or given as scores; "
        "distinct by canonical hash of (game, encoding).")
ASSUMPTIONS = ["NaN and +-inf are not rank values (not a weak order / not relied upon)",
               "falsy non-list selectors are treated by the library as omitted and are outside this property"]
REACH = ["rate", "_calculate_rankings", "_unwind", "_sorter", "_unary_minus"]


def floors(tier):
    q = tier == "quick"
    return {"encoding-equal": 50000 if q else 3600000, "float-tie": 8000 if q else 600000}


def generate(ctx):
    n = ctx.budget(15000, 900000)
    for _ in range(n):
        case, meta = gen.gen_case(ctx.rng, percall=True)
        lv = meta["levels"]
        case["sel"], case["vals"] = "ranks", list(lv)
        case.pop("vals_tags", None)
        nenc = 5 if ctx.tier == "quick" else 8
        encs = []
        styles = ctx.rng.sample(gen.ENC_STYLES, min(nenc, len(gen.ENC_STYLES)))
        if "mixed" not in styles:
            styles[0] = "mixed"
        if "float" not in styles:
            styles[1] = "float"
        for st in styles:
            vals, st2 = gen.encode_levels(ctx.rng, lv, st)
            as_ = ctx.rng.choice(["ranks", "scores"])
            if as_ == "scores":
                vals = [(-int(v) if isinstance(v, bool) else -v) for v in vals]
            plain, tags = gen.tag_vals(vals)
            # the OTHER selector is left out, or spelled out as "not given" (None or an empty list): the same call
            encs.append([as_, plain, st2, tags, ctx.rng.choice(["absent", "absent", "none", "empty", "empty"])])
        if lv == list(range(len(lv))):
            encs.append([None, None, "omitted", None])
        yield "enc", dict(case=case, meta=meta, encs=encs)


def _affine(lv, vals):
    try:
        pairs = sorted(set(zip(lv, vals)))
        if len(pairs) < 3:
            return True
        (l0, v0), (l1, v1) = pairs[0], pairs[1]
        return all((v - v0) * (l1 - l0) == (v1 - v0) * (l - l0) for l, v in pairs)
    except OverflowError:
        return False


def probe_enc(ctx, payload):
    case, meta = payload["case"], payload["meta"]
    model = case["model"]
    base = run_case(case)
    if base.exc is not None or base.shape_err:
        ctx.ev("no-return")
        ctx.violation("no-return", "enc", payload, dict(exc=exc_detail(base.exc) if base.exc else base.shape_err,
                                                         enc="base"), model, meta.get("ties"))
        return
    common_buckets(ctx, base, meta)
    has_tie = meta["ties"] != "none"
    for enc in payload["encs"]:
        as_, vals, style = enc[:3]  # witness files written by earlier versions carry 3 or 4 fields
        tags = enc[3] if len(enc) > 3 else None
        other = enc[4] if len(enc) > 4 else "absent"
        c2 = dict(case)
        c2["sel"], c2["vals"] = as_, vals
        c2["vals_tags"] = tags
        if as_ in ("ranks", "scores") and other != "absent":
            c2["call"] = dict(case.get("call") or {}, **{("scores" if as_ == "ranks" else "ranks"): (None if other == "none" else [])})
            ctx.ev("other-selector-spelled-not-given")
            style = f"{style}+other={other}"
        r2 = run_case(c2)
        has_float = bool(vals) and any(isinstance(v, float) for v in vals)
        reg = f"{meta['ties']}/{style}/{as_}"
        ctx.ev("encoding-equal")
        if has_tie and has_float:
            ctx.ev("float-tie")
        ctx.bucket("shadow_encoding", f"{style}/{as_}")
        if r2.exc is not None or r2.shape_err:
            ctx.violation("no-return", "enc", payload, dict(exc=exc_detail(r2.exc) if r2.exc else r2.shape_err,
                                                             enc=[as_, vals]), model, reg)
            continue
        diff = None
        for i, (ta, tb) in enumerate(zip(base.res, r2.res)):
            for j, (a, b) in enumerate(zip(ta, tb)):
                if float(a[0]).hex() != float(b[0]).hex() or float(a[1]).hex() != float(b[1]).hex():
                    diff = diff or dict(slot=[i, j], base=list(a), shadow=list(b), enc=[as_, vals], levels=meta["levels"])
        nt = (has_tie and has_float) or as_ == "scores" or (vals is not None and not _affine(meta["levels"], vals))
        ctx.case(dict(c=case, e=[as_, vals]), nt and updated(base))
        if diff:
            ctx.violation("encoding-equal", "enc", payload, diff, model,
                          f"{'tie' if has_tie else 'notie'}/{'float' if has_float else 'int'}/{as_}")
    if len(ctx.samples) < 3 and has_tie and ctx.rng.random() < 0.02:
        ctx.sample(dict(model=model, levels=meta["levels"], encodings=payload["encs"], teams=case["teams"],
                        result=base.res))


PROBES = {"enc": probe_enc}
