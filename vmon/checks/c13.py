"""C13 - malformed calls are rejected with TypeError/ValueError before any side effect (fault enumeration)."""
import math

from .. import gen
from ..attach import observe, attrs_changed, inputs_changed
from ..rateprobe import exc_detail
from ..util import KIND, MODEL_NAMES, build, models

PROPERTY = "C13"
PYTEST_PREFIX = "C13/"
TECHNIQUE = "runtime monitoring: complete enumeration of a malformed-argument grammar under a frame monitor (exception class, no side effect), keyword and positional call forms"
LEVEL = "fault_enumeration"
RULE = ("A finite grammar of malformed arguments is enumerated COMPLETELY at every position of each base game: teams in "
        "{None, tuple, dict, set, str, int, generator, deque, frozenset, [], [one team]}; team i in {tuple, deque, set, None, "
        "int, str, dict, bare rating, []}; player (i,j) in {None, int, float, str, (mu,sigma) tuple, dict, a rating of each of the four other "
        "models, the rating class, a nested list}; ranks/scores in {tuple, str, non-zero int/float, dict, set, range, "
        "generator, True, deque, array, bytes, length n-1, length n+1, element i in {None, str, list, tuple, complex, a rating}}; both "
        "selectors given - every selector fault as a keyword call and as a POSITIONAL call rate(teams, ranks, scores, ...); plus containers that were ACCEPTED once and are then edited in place to be malformed and passed "
        "again. Applied to rate (all) and the three predict operations (teams part). Oracle: the call raises "
        "TypeError or ValueError, and a frame monitor finds every rating reachable from the arguments and the model's "
        "__dict__ unchanged afterwards. A well-formed acceptance set (int, float, bool, 0, negative, -0.0, huge ints, "
        "all-equal, as ranks and scores; the other selector spelled None or []) must be accepted. Every variant is non-trivial; distinct = (base game, "
        "operation, variant, position).")
ASSUMPTIONS = ["falsy non-list selectors (0, '', (), {}, False, []) are treated by the library as omitted: outside "
               "'given (non-empty)'", "Decimal/Fraction elements and NaN are outside both sets"]
REACH = ["_check_teams", "rate", "predict_win", "predict_draw", "predict_rank"]
EXHAUSTIVE = "the malformed-argument grammar at every position of every base game (not the space of base games)"
SHARDS = {"quick": 10, "thorough": 16}


def floors(tier):
    q = tier == "quick"
    return {"rejected/class": 4000 if q else 1200000, "rejected/no-side-effect": 4000 if q else 1200000,
            "accepted": 600 if q else 50000}


def generate(ctx):
    nbase = 6 if ctx.tier == "quick" else 500
    idx = 0
    for m in MODEL_NAMES:
        for b in range(nbase):
            idx += 1
            if idx % ctx.nshards != ctx.shard:
                continue
            kmax = 4 if ctx.tier == "quick" else 8
            case, meta = gen.gen_case(ctx.rng, model=m, kmax=kmax, pmax=3, int_only=True, percall=False,
                                      regime=ctx.rng.choice(["typical", "wide", "equal_size"]))
            if ctx.rng.random() < 0.5:
                case["call"] = dict(tau=case["cfg"]["beta"], limit_sigma=ctx.rng.choice([True, False]))
            yield "base", dict(case=case, meta=meta)
    ctx.count("exhaustive_complete")


def _gen(xs):
    for x in xs:
        yield x


class _Variants:
    """Enumerates (label, op, builder) where builder(model, teams, Ms) -> (args, kwargs)."""

    def __init__(self, case):
        self.case = case
        self.n = len(case["teams"])
        self.sizes = [len(t) for t in case["teams"]]
        self.valid_sel = case.get("sel") or "ranks"
        self.valid_vals = list(case["vals"]) if case.get("vals") is not None else list(range(self.n))

    def teams_level(self):
        def mk(f):
            return lambda model, teams, Ms: f(model, teams)
        yield "teams=None", mk(lambda m, t: None)
        yield "teams=tuple", mk(lambda m, t: tuple(t))
        yield "teams=dict", mk(lambda m, t: {i: x for i, x in enumerate(t)})
        yield "teams=set", mk(lambda m, t: {p for x in t for p in x})
        yield "teams=str", mk(lambda m, t: "teams")
        yield "teams=int", mk(lambda m, t: 3)
        yield "teams=generator", mk(lambda m, t: _gen(t))
        yield "teams=deque", mk(lambda m, t: __import__("collections").deque(t))
        yield "teams=frozenset of tuples", mk(lambda m, t: frozenset(tuple(x) for x in t))
        yield "teams=[]", mk(lambda m, t: [])
        yield "teams=[one team]", mk(lambda m, t: [t[0]])
        for i in range(self.n):
            def at(i, f):
                def b(model, teams, Ms):
                    t = list(teams)
                    t[i] = f(model, teams[i])
                    return t
                return b
            yield f"team[{i}]=tuple", at(i, lambda m, x: tuple(x))
            yield f"team[{i}]=deque", at(i, lambda m, x: __import__("collections").deque(x))
            yield f"team[{i}]=set", at(i, lambda m, x: set(x))
            yield f"team[{i}]=None", at(i, lambda m, x: None)
            yield f"team[{i}]=int", at(i, lambda m, x: 7)
            yield f"team[{i}]=str", at(i, lambda m, x: "team")
            yield f"team[{i}]=dict", at(i, lambda m, x: {j: p for j, p in enumerate(x)})
            yield f"team[{i}]=bare rating", at(i, lambda m, x: x[0])
            yield f"team[{i}]=[]", at(i, lambda m, x: [])
            for j in range(self.sizes[i]):
                def pat(i, j, f):
                    def b(model, teams, Ms):
                        t = [list(x) for x in teams]
                        t[i][j] = f(model, teams[i][j], Ms)
                        return t
                    return b
                yield f"player[{i}][{j}]=None", pat(i, j, lambda m, p, Ms: None)
                yield f"player[{i}][{j}]=int", pat(i, j, lambda m, p, Ms: 25)
                yield f"player[{i}][{j}]=float", pat(i, j, lambda m, p, Ms: 25.0)
                yield f"player[{i}][{j}]=str", pat(i, j, lambda m, p, Ms: "player")
                yield f"player[{i}][{j}]=(mu,sigma) tuple", pat(i, j, lambda m, p, Ms: (p.mu, p.sigma))
                yield f"player[{i}][{j}]=dict", pat(i, j, lambda m, p, Ms: dict(mu=p.mu, sigma=p.sigma))
                for other in MODEL_NAMES:
                    if other != self.case["model"]:
                        yield (f"player[{i}][{j}]=rating of {KIND[other]}",
                               pat(i, j, lambda m, p, Ms, other=other: Ms[other]().rating(p.mu, p.sigma)))
                yield f"player[{i}][{j}]=rating class", pat(i, j, lambda m, p, Ms: type(p))
                yield f"player[{i}][{j}]=nested list", pat(i, j, lambda m, p, Ms: [p])

    def selector_level(self):
        n = self.n
        good = self.valid_vals
        for sel in ("ranks", "scores"):
            yield f"{sel}=tuple", {sel: tuple(good)}
            yield f"{sel}=str", {sel: "12"[:n] if n <= 2 else "1" * n}
            yield f"{sel}=int", {sel: 1}
            yield f"{sel}=float", {sel: 1.5}
            yield f"{sel}=dict", {sel: {i: v for i, v in enumerate(good)}}
            yield f"{sel}=set", {sel: set(range(1, n + 1))}
            yield f"{sel}=range", {sel: range(1, n + 1)}
            yield f"{sel}=generator", {sel: _gen(list(good))}
            yield f"{sel}=True", {sel: True}
            yield f"{sel}=deque", {sel: __import__("collections").deque(good)}
            yield f"{sel}=array", {sel: __import__("array").array("d", [float(i) for i in range(n)])}
            yield f"{sel}=bytes", {sel: bytes(range(1, n + 1))}
            yield f"{sel}=len n-1", {sel: list(range(1, n))}
            yield f"{sel}=len n+1", {sel: list(range(1, n + 2))}
            for i in range(n):
                for lab, bad in (("None", None), ("str", "1"), ("list", [1]), ("tuple", (1,)), ("complex", 1j)):
                    v = list(range(1, n + 1))
                    v[i] = bad
                    yield f"{sel}[{i}]={lab}", {sel: v}
                yield f"{sel}[{i}]=rating", {sel: ("RATING", i)}
        yield "both valid", dict(ranks=list(range(1, n + 1)), scores=list(range(1, n + 1)))
        yield "ranks valid + scores tuple", dict(ranks=list(range(1, n + 1)), scores=tuple(range(1, n + 1)))
        yield "ranks valid + scores short", dict(ranks=list(range(1, n + 1)), scores=[1] * (n - 1) if n > 1 else [1, 2])
        yield "ranks tuple + scores valid", dict(ranks=tuple(range(1, n + 1)), scores=list(range(1, n + 1)))

    def wellformed(self):
        n = self.n
        base = list(range(n))
        yield "int", base
        yield "float", [float(x) + 0.5 for x in base]
        yield "bool", [bool(i % 2) for i in range(n)]
        yield "zeros(all equal)", [0] * n
        yield "negative", [-(x + 1) for x in base]
        yield "-0.0 and 0.0", [(-0.0 if i % 2 else 0.0) for i in range(n)]
        yield "huge ints", [2 ** 70 + x for x in base]
        yield "mixed int/float", [(float(x) if i % 2 else x) for i, x in enumerate(base)]
        yield "all equal float", [1.5] * n
        yield "reversed", base[::-1]


def _judge_rejected(ctx, payload, label, op, o, model_name, n_reach):
    reg = label.split("=")[0].split("[")[0] + "/" + op
    ctx.ev("rejected/class")
    ctx.bucket("variant_x_op", f"{op}:{label.split('[')[0] if label.startswith(('team[', 'player[')) else label}"
               .replace("]", ""))
    if o.exc is None:
        ctx.violation("rejected/normal-return", "base", payload, dict(variant=label, op=op, returned=repr(o.res)[:120]),
                      model_name, reg)
    elif not isinstance(o.exc, (TypeError, ValueError)):
        ctx.violation("rejected/class", "base", payload, dict(variant=label, op=op, exc=exc_detail(o.exc)), model_name, reg)
    else:
        ctx.bucket("exception_class", f"{label.split('[')[0].split('=')[0]}:{type(o.exc).__name__}")
    ctx.ev("rejected/no-side-effect")
    ch_in = inputs_changed(o)
    ch_at = attrs_changed(o)
    if ch_in or ch_at or o.writes:
        ctx.violation("rejected/side-effect", "base", payload,
                      dict(variant=label, op=op, ratings_changed=ch_in[:4], attrs_changed=ch_at[:4], writes=o.writes[:4]),
                      model_name, reg)
    if n_reach > 0:
        ctx.count("rejected_calls_with_reachable_ratings")
    ctx.case(dict(c=payload["case"]["teams"], m=model_name, v=label, op=op), True)


def probe_base(ctx, payload):
    case = payload["case"]
    model_name = case["model"]
    Ms = models()
    V = _Variants(case)
    call = dict(case.get("call") or {})
    nvar = 0
    # --- teams-level variants on all four operations
    for label, builder in V.teams_level():
        for op in ("rate", "predict_win", "predict_draw", "predict_rank"):
            model, teams, kw = build(case, Ms)
            bad_teams = builder(model, teams, Ms)
            # keep the original rating objects reachable for the frame monitor through an extra (ignored) root
            if op == "rate":
                o = observe(model, "rate", bad_teams, **kw)
            else:
                o = observe(model, op, bad_teams)
            _judge_rejected(ctx, payload, label, op, o, model_name, len(o.raw))
            nvar += 1
    # --- the same container object, accepted once, then edited IN PLACE to be malformed and passed again (a validation
    #     result remembered per list object must not survive the edit)
    for op in ("rate", "predict_win", "predict_draw", "predict_rank"):
        for label, edit in (("player[0][0]:=foreign rating", "foreign"), ("player[-1][-1]:=None", "none"), ("team[-1]:=[]", "emptyteam"),
                            ("teams truncated to one team", "truncate"), ("team[0]:=tuple", "tuple")):
            model, teams, kw = build(case, Ms)
            first = observe(model, "predict_win", teams)  # accepted, and does not modify anything
            if first.exc is not None:
                continue
            if edit == "foreign":
                other = next(m for m in MODEL_NAMES if m != model_name)
                teams[0][0] = Ms[other]().rating(teams[0][0].mu, teams[0][0].sigma)
            elif edit == "none":
                teams[-1][-1] = None
            elif edit == "emptyteam":
                del teams[-1][:]
            elif edit == "truncate":
                del teams[1:]
            else:
                teams[0] = tuple(teams[0])
            o = observe(model, op, teams, **(kw if op == "rate" else {}))
            _judge_rejected(ctx, payload, "in-place after accept: " + label, op, o, model_name, len(o.raw))
            nvar += 1
    # --- selector-level variants on rate
    for label, sel_kw in V.selector_level():
        model, teams, kw = build(case, Ms)
        kw2 = dict(call)
        for k_, v_ in sel_kw.items():
            if isinstance(v_, tuple) and len(v_) == 2 and v_[0] == "RATING":
                vv = list(range(1, V.n + 1))
                vv[v_[1]] = teams[0][0]
                v_ = vv
            kw2[k_] = v_
        o = observe(model, "rate", teams, **kw2)
        _judge_rejected(ctx, payload, label, "rate", o, model_name, len(o.raw))
        nvar += 1
        # the same malformed call written POSITIONALLY: rate(teams, ranks, scores, tau, limit_sigma)
        if set(sel_kw) <= {"ranks", "scores"}:
            model, teams, kw = build(case, Ms)
            order = ["ranks", "scores", "tau", "limit_sigma"]
            kwp = dict(call)
            for k_, v_ in sel_kw.items():
                if isinstance(v_, tuple) and len(v_) == 2 and v_[0] == "RATING":
                    vv = list(range(1, V.n + 1))
                    vv[v_[1]] = teams[0][0]
                    v_ = vv
                elif hasattr(v_, "__next__"):
                    v_ = _gen(list(V.valid_vals))
                kwp[k_] = v_
            last = max(i for i, k_ in enumerate(order) if k_ in kwp)
            o = observe(model, "rate", teams, *[kwp.get(k_) for k_ in order[:last + 1]])
            _judge_rejected(ctx, payload, "positional: " + label, "rate", o, model_name, len(o.raw))
            nvar += 1
    # --- acceptance set
    for label, vals in V.wellformed():
        for sel in ("ranks", "scores"):
            model, teams, kw = build(case, Ms)
            kw2 = dict(call)
            kw2[sel] = list(vals)
            if (len(label) + len(sel)) % 2:
                # half of the acceptance set is called positionally
                order = ["ranks", "scores", "tau", "limit_sigma"]
                last = max(i for i, k_ in enumerate(order) if k_ in kw2)
                o = observe(model, "rate", teams, *[kw2.get(k_) for k_ in order[:last + 1]])
            else:
                o = observe(model, "rate", teams, **kw2)
            ctx.ev("accepted")
            ctx.bucket("accepted_variants", f"{sel}:{label}")
            if o.exc is not None:
                ctx.violation("accepted/rejected", "base", payload, dict(variant=label, sel=sel, vals=repr(vals),
                                                                         exc=exc_detail(o.exc)), model_name, f"wellformed/{label}")
            ctx.case(dict(c=case["teams"], m=model_name, v=label, s=sel), True)
    # the other selector spelled out as "not given": None or an empty list (the statement's "given (non-empty)")
    for sel, other in (("ranks", "scores"), ("scores", "ranks")):
        for label, empty in (("None", None), ("[]", [])):
            model, teams, kw = build(case, Ms)
            kw2 = dict(call)
            kw2[sel] = list(range(V.n))
            kw2[other] = empty
            o = observe(model, "rate", teams, **kw2)
            ctx.ev("accepted")
            ctx.bucket("accepted_variants", f"{sel} given, {other}={label}")
            if o.exc is not None:
                ctx.violation("accepted/rejected", "base", payload, dict(variant=f"{sel} given, {other}={label}", exc=exc_detail(o.exc)),
                              model_name, "wellformed/other-selector-empty")
    for op in ("predict_win", "predict_draw", "predict_rank"):
        model, teams, kw = build(case, Ms)
        o = observe(model, op, teams)
        ctx.ev("accepted")
        if o.exc is not None:
            ctx.violation("accepted/rejected", "base", payload, dict(op=op, exc=exc_detail(o.exc)), model_name, "wellformed/predict")
    ctx.count("variants_enumerated", nvar)
    ctx.count("base_games")
    if len(ctx.samples) < 2:
        ctx.sample(dict(model=model_name, base_teams=case["teams"], call=call, variants_enumerated=nvar,
                        example_variants=[l for l, _ in list(V.teams_level())[:12]] + [l for l, _ in list(V.selector_level())[:8]]))


PROBES = {"base": probe_base}
