"""Per-worker observation context, merge, known-findings classifier, evidence writer."""
import json
import os
import random
import time

from .util import VERIF, canon_hash

MAX_SAMPLES = 6
MAX_VIOL_KEPT = 90


class Inconclusive(Exception):
    pass


class Ctx:
    """What monitors report into.  One per worker process (or per replay)."""

    def __init__(self, check, tier, seed, shard=0, nshards=1):
        self.check = check
        self.tier = tier
        self.seed = seed
        self.shard = shard
        self.nshards = nshards
        self.rng = random.Random(f"{seed}/{check}/{tier}/{shard}")
        self.evals = {}  # clause -> count of oracle evaluations
        self.skipped = {}  # clause -> count skipped by precondition
        self.nontrivial = set()  # hashes of distinct non-trivial cases
        self.cases = 0
        self.buckets = {}  # name -> {key: count}
        self.maxfrac = {}  # clause -> max observed error / tolerance
        self.samples = []
        self.violations = []  # dicts
        self.nviol = 0
        self.counters = {}
        self.notes = {}
        self.t0 = time.time()
        self.deadline = None

    # -- budgets ----------------------------------------------------------
    def budget(self, quick, thorough):
        """number of cases THIS shard should generate"""
        total = quick if self.tier == "quick" else thorough
        f = float(os.environ.get("VERIF_BUDGET_SCALE", "1"))
        total = max(1, int(total * f))
        per = total // self.nshards + (1 if self.shard < total % self.nshards else 0)
        return per

    def out_of_time(self):
        return self.deadline is not None and time.time() > self.deadline

    # -- observations -----------------------------------------------------
    def ev(self, clause, n=1):
        self.evals[clause] = self.evals.get(clause, 0) + n

    def skip(self, clause, n=1):
        self.skipped[clause] = self.skipped.get(clause, 0) + n

    def count(self, name, n=1):
        self.counters[name] = self.counters.get(name, 0) + n

    def bucket(self, name, key, n=1):
        b = self.buckets.setdefault(name, {})
        key = str(key)
        b[key] = b.get(key, 0) + n

    def frac(self, clause, f):
        try:
            f = float(f)
        except Exception:
            return
        if f != f:
            return
        if f > self.maxfrac.get(clause, 0.0):
            self.maxfrac[clause] = f

    def case(self, payload, nontrivial):
        self.cases += 1
        if nontrivial:
            self.nontrivial.add(canon_hash(payload))

    def sample(self, obj, force=False):
        if len(self.samples) < MAX_SAMPLES or force:
            self.samples.append(obj)

    def violation(self, clause, kind, payload, detail, model=None, regime=None):
        """Record one violating observation; self-contained so that --replay can re-judge it."""
        self.nviol += 1
        cls = (clause, model, regime)
        self._per_class = getattr(self, "_per_class", {})
        self._per_class[cls] = self._per_class.get(cls, 0) + 1
        if self._per_class[cls] <= 3 and len(self.violations) < MAX_VIOL_KEPT:
            self.violations.append(
                dict(check=self.check, clause=clause, kind=kind, payload=payload, detail=detail,
                     model=model, regime=regime, seed=self.seed, shard=self.shard, tier=self.tier)
            )

    def dump(self):
        return dict(
            evals=self.evals, skipped=self.skipped, nontrivial=sorted(self.nontrivial), cases=self.cases,
            buckets=self.buckets, maxfrac=self.maxfrac, samples=self.samples, violations=self.violations,
            nviol=self.nviol, counters=self.counters, notes=self.notes, wall=time.time() - self.t0,
        )


def merge(dumps):
    out = dict(evals={}, skipped={}, nontrivial=set(), cases=0, buckets={}, maxfrac={}, samples=[],
               violations=[], nviol=0, counters={}, notes={}, wall=0.0)
    for d in dumps:
        for k, v in d["evals"].items():
            out["evals"][k] = out["evals"].get(k, 0) + v
        for k, v in d["skipped"].items():
            out["skipped"][k] = out["skipped"].get(k, 0) + v
        for k, v in d["counters"].items():
            if isinstance(v, (int, float)):
                out["counters"][k] = out["counters"].get(k, 0) + v
        out["nontrivial"].update(d["nontrivial"])
        out["cases"] += d["cases"]
        for name, b in d["buckets"].items():
            ob = out["buckets"].setdefault(name, {})
            for k, v in b.items():
                ob[k] = ob.get(k, 0) + v
        for k, v in d["maxfrac"].items():
            out["maxfrac"][k] = max(out["maxfrac"].get(k, 0.0), v)
        out["violations"].extend(d["violations"])
        out["nviol"] += d["nviol"]
        for k, v in d["notes"].items():
            if isinstance(v, list):
                out["notes"].setdefault(k, [])
                for x in v:
                    if x not in out["notes"][k]:
                        out["notes"][k].append(x)
            else:
                out["notes"].setdefault(k, v)
        out["wall"] = max(out["wall"], d["wall"])
    # spread samples over shards
    per = [d["samples"] for d in dumps]
    i = 0
    while len(out["samples"]) < MAX_SAMPLES and any(per):
        for s in per:
            if s and len(out["samples"]) < MAX_SAMPLES:
                out["samples"].append(s.pop(0))
        i += 1
    return out


# ------------------------------------------------------------------ known findings
def load_known():
    p = os.path.join(VERIF, "known_findings.json")
    try:
        with open(p) as f:
            return json.load(f)
    except FileNotFoundError:
        return {"open": [], "fixed": []}


def classify(viol, known):
    """Return the open known-finding entry this violation matches, or None.
    Entries are keyed by mechanism: property, clause (prefix), optional model list, optional
    predicate name evaluated by the check module on the witness.  Never by seed/hash/values."""
    for ent in known.get("open", []):
        if ent.get("property") != viol["check"]:
            continue
        if not str(viol["clause"]).startswith(ent.get("clause", "")):
            continue
        if ent.get("models") and viol.get("model") not in ent["models"]:
            continue
        pred = ent.get("predicate")
        if pred:
            from importlib import import_module

            mod = import_module(f"vmon.checks.{viol['check'].lower()}")
            fn = getattr(mod, "KNOWN_PREDICATES", {}).get(pred)
            if fn is None or not fn(viol):
                continue
        return ent
    return None
