"""pytest plugin: run the repository's own tests with the single-call contracts switched on.

Usage (done by vmon.contracts_on_tests.run):  cd <tree> && OPENSKILL_VERIF=1 VMON_PYTEST_OUT=<file> PYTHONPATH=/verif \
    python -m pytest -q -p no:cacheprovider -p vmon.pytest_plugin
With OPENSKILL_VERIF unset the plugin installs nothing.  Contracts record and return (they never raise into the test), and
carry explicit preconditions: calls the suite makes outside a property's stated domain are counted as skipped, not judged.
"""
import json
import math
import os
import weakref

_ctx = None
_cfg = weakref.WeakKeyDictionary()


def pytest_configure(config):
    global _ctx
    if os.environ.get("OPENSKILL_VERIF") != "1":
        return
    from .verdict import Ctx

    _ctx = Ctx("PYTEST", "quick", 0)
    install(_ctx)


def pytest_unconfigure(config):
    if _ctx is None:
        return
    out = os.environ.get("VMON_PYTEST_OUT")
    if out:
        from .attach import CORR_COUNTS

        d = _ctx.dump()
        d["corr_counts"] = dict(CORR_COUNTS)
        with open(out, "w") as f:
            json.dump(d, f, default=repr)


def install(ctx):
    from .util import bootstrap, models, KIND, EPS

    bootstrap()
    from . import attach
    from .attach import snap_teams, is_rating, walk_ratings, snap_rating
    from .rateprobe import shape_error

    attach.install_taps()
    Ms = models()

    def in_box(model, teams):
        try:
            beta = model.beta
            for t in teams:
                for p in t:
                    if not (abs(p.mu) <= 20 * beta * 1.0000001 and 0 < p.sigma <= 10 * beta):
                        return False
            return 2 <= len(teams) <= 8 and all(1 <= len(t) <= 16 for t in teams)
        except Exception:  # noqa: BLE001
            return False

    for name, Mc in Ms.items():
        kind = KIND[name]
        orig_init = Mc.__init__

        def init(self, *a, _o=orig_init, **kw):
            _o(self, *a, **kw)
            _cfg[self] = dict(tau=self.tau, limit_sigma=self.limit_sigma, kappa=self.kappa, beta=self.beta, gamma=self.gamma)

        Mc.__init__ = init
        orig_rate = Mc.rate

        def rate(self, teams, ranks=None, scores=None, tau=None, limit_sigma=None, _o=orig_rate, _name=name, _kind=kind):
            cfg = _cfg.get(self)
            raw = walk_ratings([teams])
            pre_flat = [snap_rating(p) for p in raw]
            wellformed = isinstance(teams, list) and all(isinstance(t, list) and t and all(is_rating(p) for p in t) for t in teams)
            pre = snap_teams(teams) if wellformed else None
            attrs0 = dict(vars(self))
            attach.arm(self)
            try:
                res = _o(self, teams, ranks=ranks, scores=scores, tau=tau, limit_sigma=limit_sigma)
            except Exception as e:  # noqa: BLE001
                attach.disarm(self)
                ctx.ev("C13/rejected-class")
                if not isinstance(e, (TypeError, ValueError)):
                    ctx.violation("C13/rejected-class", "pytest", dict(model=_name), dict(exc=repr(e)), _name, "pytest")
                ctx.ev("C13/no-side-effect")
                after = [snap_rating(p) for p in raw]
                if any((a["mu"], a["sigma"], a["id"], a["name"]) != (b["mu"], b["sigma"], b["id"], b["name"]) for a, b in zip(pre_flat, after)) \
                        or {k: v for k, v in vars(self).items()} != attrs0:
                    ctx.violation("C13/no-side-effect", "pytest", dict(model=_name), dict(exc=repr(e)), _name, "pytest")
                raise
            writes = attach.disarm(self)
            ctx.ev("C14/no-model-write")
            if writes or dict(vars(self)) != attrs0:
                ctx.violation("C14/no-model-write", "pytest", dict(model=_name), dict(writes=[w[:3] for w in writes[:4]]), _name, "pytest")
            if pre is None or cfg is None:
                ctx.skip("rate-contracts")
                return res
            err = shape_error(pre, res)
            ctx.ev("C02/shape+identity")
            if err:
                ctx.violation("C02/shape", "pytest", dict(model=_name), dict(err=err), _name, "pytest")
                return res
            for tp, tr in zip(pre, res):
                for s, p in zip(tp, tr):
                    if p.id != s["id"] or p.name != s["name"]:
                        ctx.violation("C02/identity", "pytest", dict(model=_name), dict(want=s["id"], got=p.id), _name, "pytest")
            te = tau if tau is not None else cfg["tau"]
            le = limit_sigma if limit_sigma is not None else cfg["limit_sigma"]
            valid = all(s["sigma"] > 0 for t in pre for s in t) and te >= 0
            if not valid:
                ctx.skip("C06/C07/C08")
                return res
            S, allow = 0.0, 0.0
            var = []
            for tp, tr in zip(pre, res):
                v = math.fsum(s["sigma"] ** 2 + te * te for s in tp)
                var.append(v)
                d = [p.mu - s["mu"] for s, p in zip(tp, tr)]
                S += math.fsum(d) / v
                allow += math.fsum(1e-9 * abs(x) + 4 * EPS * (abs(s["mu"]) + abs(p.mu)) for x, s, p in zip(d, tp, tr)) / v
                for s, p in zip(tp, tr):
                    ctx.ev("C06/sigma-bound")
                    bound = math.sqrt(s["sigma"] ** 2 + te * te)
                    if not (math.isfinite(p.sigma) and 0 < p.sigma <= bound * (1 + 1e-12)) or (le and not p.sigma <= s["sigma"]):
                        ctx.violation("C06/sigma-bound", "pytest", dict(model=_name), dict(prior=s["sigma"], tau=te, got=p.sigma, limit=le), _name, "pytest")
                    ctx.ev("C08/finite")
                    if not (math.isfinite(p.mu) and math.isfinite(p.sigma)):
                        ctx.violation("C08/finite", "pytest", dict(model=_name), dict(mu=p.mu, sigma=p.sigma), _name, "pytest")
            rv = list(ranks) if ranks else ([-x for x in scores] if scores else list(range(len(pre))))
            if _kind in ("TMF", "TMP"):
                for i in range(len(pre)):
                    for q in range(i + 1, len(pre)):
                        if rv[i] == rv[q]:
                            allow += 2 * cfg["kappa"] / (var[i] + var[q] + 2 * cfg["beta"] ** 2)
            th = [math.fsum(s_["mu"] for s_ in tp) for tp in pre]
            c_low = math.sqrt(2.0) * cfg["beta"]
            allow += math.fsum(8 * EPS * (1 + abs(th[i] - th[q]) / c_low) / c_low for i in range(len(th)) for q in range(len(th)) if q != i)
            ctx.ev("C07/conservation")
            if not abs(S) <= allow:
                ctx.violation("C07/conservation", "pytest", dict(model=_name), dict(S=S, allowance=allow), _name, "pytest")
            ctx.case([_name, [[(s["mu"], s["sigma"]) for s in t] for t in pre], rv, te, le], True)
            return res

        Mc.rate = rate

        def wrap_pred(op, orig):
            def pred(self, teams, _o=orig, _name=name):
                attrs0 = dict(vars(self))
                try:
                    res = _o(self, teams)
                except Exception as e:  # noqa: BLE001
                    ctx.ev("C13/rejected-class")
                    if not isinstance(e, (TypeError, ValueError)):
                        ctx.violation("C13/rejected-class", "pytest", dict(model=_name, op=op), dict(exc=repr(e)), _name, "pytest")
                    raise
                ctx.ev("C14/no-model-write")
                if dict(vars(self)) != attrs0:
                    ctx.violation("C14/no-model-write", "pytest", dict(model=_name, op=op), {}, _name, "pytest")
                n = len(teams)
                if op == "predict_win":
                    ctx.ev("C09/range+sum")
                    if not (len(res) == n and all(-1e-15 <= x <= 1 + 1e-15 for x in res) and abs(math.fsum(res) - 1) <= 1e-12):
                        ctx.violation("C09/range+sum", "pytest", dict(model=_name), dict(res=res), _name, "pytest")
                elif op == "predict_draw":
                    ctx.ev("C10/range")
                    if not (-1e-15 <= res <= 1 + 1e-15):
                        ctx.violation("C10/range", "pytest", dict(model=_name), dict(res=res), _name, "pytest")
                else:
                    ctx.ev("C11/ranks")
                    ps = [x[1] for x in res]
                    rs = [x[0] for x in res]
                    ok = len(res) == n and all(isinstance(r, int) and 1 <= r <= n for r in rs) and all(
                        (not ps[i] > ps[j] or rs[i] < rs[j]) and (ps[i] != ps[j] or rs[i] == rs[j]) for i in range(n) for j in range(n))
                    if not ok:
                        ctx.violation("C11/ranks", "pytest", dict(model=_name), dict(res=res), _name, "pytest")
                ctx.case([_name, op, repr(res)[:80]], True)
                return res
            return pred

        for op in ("predict_win", "predict_draw", "predict_rank"):
            setattr(Mc, op, wrap_pred(op, getattr(Mc, op)))

    # C17 contracts on the exported correction functions, wherever the TM modules imported them
    from .checks import c17

    def obs(name, args, result):
        if name == "phi_major" and len(args) == 1 and isinstance(args[0], (int, float)) and math.isfinite(args[0]):
            c17.judge(ctx, "pytest", dict(fn=name, args=list(args)), "phi_major", float(args[0]), 0.0, result)
        elif len(args) == 2 and all(isinstance(a, (int, float)) and math.isfinite(a) for a in args):
            c17.judge(ctx, "pytest", dict(fn=name, args=list(args)), name, float(args[0]), float(args[1]), result)

    # the test modules bind v, w, vt, wt with `from ... import`: wrap before they are imported (pytest_configure runs first)
    attach.wrap_corrections(obs)
