"""Thread-schedule monitor: real threads on one shared model, sys.monitoring LINE events on the repository's code
objects used (a) to log which thread executed which line and (b) to inject yields (time.sleep(0)) at statement
boundaries -- the only places CPython can switch threads, so no impossible interleaving is manufactured."""
import random
import sys
import threading
import time

from . import reach
from .util import bootstrap

bootstrap()

mon = sys.monitoring
TOOL = 5
_claimed = False


def _claim():
    global _claimed
    if not _claimed:
        mon.use_tool_id(TOOL, "vmon-sched")
        _claimed = True


class Round:
    """One round: run `jobs` (list of per-thread callables) concurrently under yield injection."""

    def __init__(self, seed, p_yield, codes=None):
        self.seed = seed
        self.p = p_yield
        self.log = []  # (thread index, code id, line)
        self.codes = codes if codes is not None else reach._collect_codes()
        self._tl = threading.local()
        self.names = {}

    def _cb(self, code, line):
        tl = self._tl
        idx = getattr(tl, "idx", None)
        if idx is None:
            return None
        self.log.append((idx, id(code), line))
        if tl.rng.random() < self.p:
            time.sleep(0)
        return None

    def run(self, jobs, timeout=120.0):
        _claim()
        for c in self.codes:
            self.names[id(c)] = c.co_qualname
        mon.register_callback(TOOL, mon.events.LINE, self._cb)
        for c in self.codes:
            mon.set_local_events(TOOL, c, mon.events.LINE)
        old = sys.getswitchinterval()
        sys.setswitchinterval(1e-5)
        errors = []
        start = threading.Barrier(len(jobs))

        def body(i, job):
            self._tl.idx = i
            self._tl.rng = random.Random(f"{self.seed}/{i}")
            try:
                start.wait(timeout=30)
                job()
            except BaseException as e:  # noqa: BLE001 - harness failure, reported by the caller
                errors.append((i, repr(e)))
            finally:
                self._tl.idx = None

        threads = [threading.Thread(target=body, args=(i, j), daemon=True) for i, j in enumerate(jobs)]
        t0 = time.time()
        try:
            for t in threads:
                t.start()
            for t in threads:
                t.join(max(0.1, timeout - (time.time() - t0)))
            alive = [t for t in threads if t.is_alive()]
        finally:
            sys.setswitchinterval(old)
            for c in self.codes:
                mon.set_local_events(TOOL, c, 0)
            mon.register_callback(TOOL, mon.events.LINE, None)
        return errors, bool(alive)

    def stats(self):
        log = self.log
        switches = 0
        points = set()
        sig = []
        last = None
        for (i, cid, line) in log:
            if last is not None and i != last[0]:
                switches += 1
                points.add((self.names.get(last[1], "?"), last[2]))
            if last is None or i != last[0]:
                sig.append(i)
            last = (i, cid, line)
        # inside-call preemptions: a switch away from a thread that is inside rate/_compute/predict_* (not at their end)
        inside = sum(1 for (fn, _) in points if fn.split(".")[-1] in (
            "rate", "_compute", "i_map", "od_reduce", "predict_win", "predict_draw", "predict_rank",
            "_calculate_team_ratings", "_calculate_rankings", "_sum_q", "_a", "_c", "v", "w", "vt", "wt"))
        import hashlib

        return dict(line_events=len(log), switches=switches, switch_points=sorted(points),
                    signature=hashlib.sha1(bytes(x % 251 for x in sig)).hexdigest()[:12], inside_points=inside)
