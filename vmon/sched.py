"""Thread-schedule monitor: real threads on one shared model, sys.monitoring LINE events on the repository's code
objects used (a) to log which thread executed which line and (b) to inject yields (time.sleep(0)) at statement
boundaries -- the only places CPython can switch threads, so no impossible interleaving is manufactured."""
import random
import sys
import threading
import time

from . import reach
from .util import bootstrap

bootstrap()

mon = sys.monitoring
TOOL = 5
_claimed = False


def _claim():
    global _claimed
    if not _claimed:
        mon.use_tool_id(TOOL, "vmon-sched")
        _claimed = True


class Round:
    """One round: run `jobs` (list of per-thread callables) concurrently under yield injection."""

    def __init__(self, seed, p_yield, codes=None):
        self.seed = seed
        self.p = p_yield
        self.log = []  # (thread index, code id, line)
        self.codes = codes if codes is not None else reach._collect_codes()
        self._tl = threading.local()
        self.names = {}

    def _cb(self, code, line):
        tl = self._tl
        idx = getattr(tl, "idx", None)
        if idx is None:
            return None
        self.log.append((idx, id(code), line))
        if tl.rng.random() < self.p:
            time.sleep(0)
        return None

    def run(self, jobs, timeout=120.0):
        _claim()
        for c in self.codes:
            self.names[id(c)] = c.co_qualname
        mon.register_callback(TOOL, mon.events.LINE, self._cb)
        for c in self.codes:
            mon.set_local_events(TOOL, c, mon.events.LINE)
        old = sys.getswitchinterval()
        sys.setswitchinterval(1e-5)
        errors = []
        start = threading.Barrier(len(jobs))

        def body(i, job):
            self._tl.idx = i
            self._tl.rng = random.Random(f"{self.seed}/{i}")
            try:
                start.wait(timeout=30)
                job()
            except BaseException as e:  # noqa: BLE001 - harness failure, reported by the caller
                errors.append((i, repr(e)))
            finally:
                self._tl.idx = None

        threads = [threading.Thread(target=body, args=(i, j), daemon=True) for i, j in enumerate(jobs)]
        t0 = time.time()
        try:
            for t in threads:
                t.start()
            for t in threads:
                t.join(max(0.1, timeout - (time.time() - t0)))
            alive = [t for t in threads if t.is_alive()]
        finally:
            sys.setswitchinterval(old)
            for c in self.codes:
                mon.set_local_events(TOOL, c, 0)
            mon.register_callback(TOOL, mon.events.LINE, None)
        return errors, bool(alive)

    def stats(self):
        log = self.log
        switches = 0
        points = set()
        sig = []
        last = None
        for (i, cid, line) in log:
            if last is not None and i != last[0]:
                switches += 1
                points.add((self.names.get(last[1], "?"), last[2]))
            if last is None or i != last[0]:
                sig.append(i)
            last = (i, cid, line)
        # inside-call preemptions: a switch away from a thread that is inside rate/_compute/predict_* (not at their end)
        inside = sum(1 for (fn, _) in points if fn.split(".")[-1] in (
            "rate", "_compute", "i_map", "od_reduce", "predict_win", "predict_draw", "predict_rank",
            "_calculate_team_ratings", "_calculate_rankings", "_sum_q", "_a", "_c", "v", "w", "vt", "wt"))
        import hashlib

        return dict(line_events=len(log), switches=switches, switch_points=sorted(points),
                    signature=hashlib.sha1(bytes(x % 251 for x in sig)).hexdigest()[:12], inside_points=inside)


class Preempt:
    """Systematic single-preemption exploration (preemption bound 1 at statement granularity): thread A runs call X;
    at its k-th LINE event inside the repository it is suspended, thread B runs the complete call Y on the same shared
    model, then A resumes.  Sweeping k over the statement boundaries A passes through enumerates every interleaving of
    (X, Y) with one preemption of X -- the schedules in which a per-call value parked on shared state is overwritten."""

    def __init__(self, codes=None):
        self.codes = codes if codes is not None else reach._collect_codes()
        self.names = {id(c): c.co_qualname for c in self.codes}

    def _arm(self, cb):
        _claim()
        mon.register_callback(TOOL, mon.events.LINE, cb)
        for c in self.codes:
            mon.set_local_events(TOOL, c, mon.events.LINE)

    def _disarm(self):
        for c in self.codes:
            mon.set_local_events(TOOL, c, 0)
        mon.register_callback(TOOL, mon.events.LINE, None)

    def trace(self, fn):
        """run fn() in the calling thread and return its LINE-event trace [(qualname, line)]"""
        log = []
        me = threading.get_ident()

        def cb(code, line):
            if threading.get_ident() == me:
                log.append((self.names.get(id(code), "?"), line))

        self._arm(cb)
        try:
            fn()
        finally:
            self._disarm()
        return log

    def run(self, fn_a, k, fn_b, timeout=30.0):
        """run fn_a in thread A, suspend it at its k-th LINE event, run fn_b to completion in thread B, resume A.
        Returns (preempted_at or None, errors)."""
        go_b = threading.Event()
        done_b = threading.Event()
        state = {"n": 0, "at": None, "a": None}
        errors = []

        def cb(code, line):
            if threading.get_ident() != state["a"]:
                return
            state["n"] += 1
            if state["n"] == k and state["at"] is None:
                state["at"] = (self.names.get(id(code), "?"), line)
                go_b.set()
                if not done_b.wait(timeout):
                    errors.append("B did not finish while A was suspended")

        def body_a():
            state["a"] = threading.get_ident()
            try:
                fn_a()
            except BaseException as e:  # noqa: BLE001
                errors.append(("A", repr(e)))
            finally:
                go_b.set()  # A ended before reaching k: let B run anyway (no preemption in this run)

        def body_b():
            go_b.wait(timeout)
            try:
                fn_b()
            except BaseException as e:  # noqa: BLE001
                errors.append(("B", repr(e)))
            finally:
                done_b.set()

        self._arm(cb)
        try:
            ta = threading.Thread(target=body_a, daemon=True)
            tb = threading.Thread(target=body_b, daemon=True)
            tb.start()
            ta.start()
            ta.join(timeout)
            tb.join(timeout)
            if ta.is_alive() or tb.is_alive():
                errors.append("thread still alive")
        finally:
            self._disarm()
        return state["at"], errors
