"""Bootstrap (which tree is under test), small float helpers, gamma registry."""
import hashlib
import json
import math
import os
import struct
import sys

VERIF = os.path.dirname(os.path.dirname(os.path.abspath(__file__)))
REPO = os.path.abspath(os.environ.get("VERIF_REPO", "/repo"))
EPS = sys.float_info.epsilon

_booted = False


def bootstrap():
    """Put the tree under test first on sys.path; never write bytecode into it."""
    global _booted
    if _booted:
        return
    sys.dont_write_bytecode = True
    deps = os.path.join(VERIF, ".deps")
    for p in (deps, REPO):
        if p in sys.path:
            sys.path.remove(p)
    sys.path.insert(0, deps)
    sys.path.insert(0, REPO)
    import openskill  # noqa

    got = os.path.realpath(os.path.dirname(os.path.dirname(openskill.__file__)))
    if got != os.path.realpath(REPO):
        raise RuntimeError(f"openskill imported from {got}, expected {REPO}")
    _booted = True


KIND = {
    "PlackettLuce": "PL",
    "BradleyTerryFull": "BTF",
    "BradleyTerryPart": "BTP",
    "ThurstoneMostellerFull": "TMF",
    "ThurstoneMostellerPart": "TMP",
}
MODEL_NAMES = list(KIND)


def models():
    bootstrap()
    from openskill.models import MODELS

    return {M.__name__: M for M in MODELS}


# --------------------------------------------------------------------------
# gamma registry: callbacks are referred to by name in cases/replays.
# signature (c, k, mu, sigma_squared, team, rank) -> float
def _g_one(c, k, mu, sigma_squared, team, rank):
    return 1.0


def _g_invk(c, k, mu, sigma_squared, team, rank):
    return 1.0 / k


def _g_three(c, k, mu, sigma_squared, team, rank):
    return 3.0


def _g_zero(c, k, mu, sigma_squared, team, rank):
    return 0.0


def _g_int_one(c, k, mu, sigma_squared, team, rank):
    return 1  # a Python int, as `lambda *a: 1` returns


def _g_int_zero(c, k, mu, sigma_squared, team, rank):
    return 0  # "freeze sigma": exactly zero, and an int


def _g_int_k_minus_rank(c, k, mu, sigma_squared, team, rank):
    return max(int(k) - int(rank), 0)  # integer-valued, zero for the last place in tie-free games


def _g_dep(c, k, mu, sigma_squared, team, rank):
    # depends smoothly on every argument, dimensionless, > 0
    return (
        0.35
        + 0.11 * rank
        + 0.07 * k
        + 0.05 * len(team)
        + 0.25 * math.tanh(mu / (7.0 * c))
        + 0.4 * math.sqrt(sigma_squared) / c
    )


class CallbackFailure(RuntimeError):
    """raised by the 'boom' callback: an application callback that fails for some games (a lookup that misses)"""


def _mk_boom(exc_type):
    def _g_boom(c, k, mu, sigma_squared, team, rank):
        # a pure function of its arguments that FAILS for teams of exactly five players (no generator of the sequences
        # that use it produces such a team except on purpose) and is 1/k otherwise
        try:
            n = len(team)
        except TypeError:
            n = 0
        if n == 5:
            raise exc_type("gamma callback failed for this team")
        return 1.0 / k

    return _g_boom


_g_boom = _mk_boom(CallbackFailure)
BOOMS = {"boom": CallbackFailure, "boom_type": TypeError, "boom_key": KeyError, "boom_value": ValueError, "boom_attr": AttributeError}


class _Gammas(dict):
    """name -> callback; 'const:<x>' is the constant callback returning float(x)"""

    def __missing__(self, key):
        if isinstance(key, str) and key.startswith("const:"):
            val = float(key[6:])

            def g(c, k, mu, sigma_squared, team, rank, _v=val):
                return _v

            self[key] = g
            return g
        raise KeyError(key)


GAMMAS = _Gammas({
    "default": None,
    "one": _g_one,
    "inv_k": _g_invk,
    "three": _g_three,
    "zero": _g_zero,
    "dep": _g_dep,
    "int_one": _g_int_one,
    "int_zero": _g_int_zero,
    "int_k_minus_rank": _g_int_k_minus_rank,
    "boom": _g_boom,
    "boom_type": _mk_boom(TypeError),  # what a buggy callback really raises: None + 1, a missing key, a bad attribute
    "boom_key": _mk_boom(KeyError),
    "boom_value": _mk_boom(ValueError),
    "boom_attr": _mk_boom(AttributeError),
})


# --------------------------------------------------------------------------
def ulp(x):
    return math.ulp(x)


def fhex(x):
    return float(x).hex()


def digest_floats(values):
    h = hashlib.sha256()
    for v in values:
        h.update(struct.pack("<d", float(v)))
    return h.hexdigest()


def canon_hash(obj):
    return hashlib.sha1(
        json.dumps(obj, sort_keys=True, default=repr).encode()
    ).hexdigest()[:16]


def flat(result):
    """nested list of ratings -> flat list of (mu, sigma)"""
    return [(p.mu, p.sigma) for team in result for p in team]


DEFAULTS = dict(mu=25.0, sigma=25.0 / 3.0, beta=25.0 / 6.0, kappa=0.0001, tau=25.0 / 300.0, limit_sigma=False)


class UserList(list):
    """what an application may pass where the library asks for a list: an instance of a list SUBCLASS (a roster class,
    an ORM / pydantic list wrapper).  It is a list in every sense the language defines."""

    roster_name = "app roster"


_SUBCLASSES = {}


def user_subclass(M):
    """a trivial application-side subclass of a model class (adds a class attribute and a method, overrides nothing)"""
    if M not in _SUBCLASSES:
        _SUBCLASSES[M] = type("App" + M.__name__, (M,), {"app_label": "league-service", "describe": lambda self: f"{self.mu}/{self.sigma}"})
    return _SUBCLASSES[M]


def rating_subclass(RC, which=0):
    """a trivial application-side subclass of a rating class (a `Player(PlackettLuceRating)` that adds a field).  Two
    siblings: 0 inherits the constructor, 1 has its OWN constructor signature (nick, mu, sigma) as application classes do,
    2 is an ORM-style entity (identity equality and hashing, a mutable container attribute).
    Their instances ARE ratings of that model (isinstance).  Build instances with make_sub()."""
    key = (RC, which)
    if key not in _SUBCLASSES:
        if which == 0:
            _SUBCLASSES[key] = type("AppPlayer", (RC,), {"team_colour": "red"})
        elif which == 1:
            def __init__(self, nick, mu, sigma, _RC=RC):
                _RC.__init__(self, mu, sigma, nick)
                self.nick = nick

            _SUBCLASSES[key] = type("AppBot", (RC,), {"team_colour": "blue", "__init__": __init__})
        if which == 2:
            # an ORM-style entity: identity decides equality and hashing (two rows are the same player only if they are
            # the same object) and it carries a mutable container of its own.  mu and sigma stay plain attributes: a subclass
            # that re-implements them as descriptors depends on how the base class stores them, which no property promises
            # (seeded change C14-I showed that such a subclass turns a storage redesign of the base class into an alarm).
            def __init__(self, mu, sigma, name=None, _RC=RC):  # noqa: F811
                _RC.__init__(self, mu, sigma, name)
                self.history = [(mu, sigma)]

            ns = {"__init__": __init__,
                  "__eq__": lambda self, other: self is other, "__ne__": lambda self, other: self is not other,
                  "__hash__": lambda self: object.__hash__(self)}
            _SUBCLASSES[key] = type("AppEntity", (RC,), ns)
    return _SUBCLASSES[key]


def make_sub(RC, which, mu, sigma, name=None):
    C = rating_subclass(RC, which)
    return C(name, mu, sigma) if which == 1 else C(mu, sigma, name)


FLAVOURS = ["listsub", "modelsub", "extras", "listsub+modelsub", "ratingsub", "ratingsub"]


def build(case, Ms=None):
    """case -> (model, teams of rating objects, kwargs for rate)."""
    Ms = Ms or models()
    M = Ms[case["model"]]
    flavour = case.get("flavour") or ""
    if "modelsub" in flavour:
        M = user_subclass(M)
    cfg = dict(case.get("cfg") or {})
    g = cfg.pop("gamma", "default")
    if cfg.pop("_defaults", False):
        # rely on the library's OWN defaults: every parameter whose value is the documented default is left out of the
        # constructor call (the monitors keep using the documented values, so a changed default shows)
        cfg = {k: v for k, v in cfg.items() if not (k in DEFAULTS and v == DEFAULTS[k] and type(v) is type(DEFAULTS[k]))}
    if GAMMAS[g] is not None:
        cfg["gamma"] = GAMMAS[g]
    model = M(**cfg)
    nm = case.get("names")
    teams = [
        [model.rating(p[0], p[1], ("bob" if nm == "same" else None) if nm else (p[2] if len(p) > 2 else None)) for p in team]
        for team in case["teams"]
    ]
    if case.get("ids") == "shared":
        # distinct rating objects that carry the same id string (copy.deepcopy clones keep the id: bots, snapshots)
        flat = [p for t in teams for p in t]
        for i, p in enumerate(flat):
            p.id = f"shared-{i % 2}"
    if "ratingsub" in flavour:
        # players are instances of an application-side SUBCLASS of the model's rating class (every other one, so that games
        # mix plain and subclass objects); ids are fresh and unique as for any constructed rating
        RC = type(teams[0][0])
        for i, t in enumerate(teams):
            for j, p in enumerate(t):
                if (i + j) % 2 == 0:
                    q = make_sub(RC, (len(teams) + i + j) % 3, p.mu, p.sigma, p.name)
                    if case.get("ids") == "shared":
                        q.id = p.id
                    t[j] = q
    if "extras" in flavour:
        # rating objects that carry application data next to the library's own attributes
        for i, t in enumerate(teams):
            for j, p in enumerate(t):
                try:
                    p.app_meta = {"seat": (i, j), "games": 3}
                except AttributeError:  # a __slots__ implementation: nothing to attach, still a valid case
                    break
    if "listsub" in flavour:
        teams = UserList(UserList(t) for t in teams)
    kw = {}
    if case.get("sel") in ("ranks", "scores"):
        if case.get("vals_tags"):
            from .gen import untag_vals

            kw[case["sel"]] = untag_vals(case["vals"], case["vals_tags"])
        else:
            kw[case["sel"]] = list(case["vals"])
        if "listsub" in flavour:
            kw[case["sel"]] = UserList(kw[case["sel"]])
    for k, v in (case.get("call") or {}).items():
        kw[k] = v
    return model, teams, kw


def eff_tau(case, default_tau):
    call = case.get("call") or {}
    if "tau" in call and call["tau"] is not None:
        return call["tau"]
    return (case.get("cfg") or {}).get("tau", default_tau)


def eff_limit(case):
    call = case.get("call") or {}
    if "limit_sigma" in call and call["limit_sigma"] is not None:
        return bool(call["limit_sigma"])
    return bool((case.get("cfg") or {}).get("limit_sigma", False))


def rankvals_of(case):
    """the numbers that define the weak order, lower = better; None -> 0..n-1"""
    n = len(case["teams"])
    if case.get("sel") == "ranks":
        return list(case["vals"])
    if case.get("sel") == "scores":
        return [-v for v in case["vals"]]
    return list(range(n))




def cfg_full(case):
    c = dict(DEFAULTS)
    c.update({k: v for k, v in (case.get("cfg") or {}).items() if k not in ("gamma", "_defaults")})
    c["gamma"] = (case.get("cfg") or {}).get("gamma", "default")
    return c
