"""Running one `rate` case against the real code under observation, and the single-call oracles
that several properties share (each check decides only its own property; the shared code keeps the
five copies of 'what was the prior / what came back' in one place)."""
import math

from .attach import observe, snap_teams, is_rating
from .util import build, KIND, cfg_full, eff_tau, eff_limit, rankvals_of, GAMMAS, EPS


class Run:
    pass


def run_case(case, Ms=None, watch_globals=False):
    """Execute case on the tree under test.  Returns Run with
    .obs (attach.Obs), .pri [[(mu, sigma, name, id)]], .res [[(mu, sigma)]] or None, .shape_err"""
    model, teams, kw = build(case, Ms)
    r = Run()
    r.case = case
    r.model = model
    r.teams = teams
    r.kw = kw
    r.pre = snap_teams(teams)
    r.pri = [[(s["mu"], s["sigma"], s["name"], s["id"]) for s in t] for t in r.pre]
    if case.get("positional"):
        # the same call written positionally: rate(teams, ranks, scores, tau, limit_sigma), trailing omitted arguments left out
        order = ["ranks", "scores", "tau", "limit_sigma"]
        last = max((i for i, k_ in enumerate(order) if k_ in kw), default=-1)
        args = [kw.get(k_) for k_ in order[:last + 1]]
        r.obs = observe(model, "rate", teams, *args, watch_globals=watch_globals)
    else:
        r.obs = observe(model, "rate", teams, watch_globals=watch_globals, **kw)
    r.exc = r.obs.exc
    r.res = None
    r.shape_err = None
    if r.exc is None:
        r.shape_err = shape_error(r.pre, r.obs.res)
        if r.shape_err is None:
            r.res = [[(p.mu, p.sigma) for p in t] for t in r.obs.res]
    r.kind = KIND[case["model"]]
    r.cfg = cfg_full(case)
    r.tau = eff_tau(case, r.cfg["tau"])
    r.limit = eff_limit(case)
    return r


def shape_error(pre, res):
    if not isinstance(res, (list, tuple)):
        return f"result is {type(res).__name__}, not a list"
    if len(res) != len(pre):
        return f"{len(res)} teams returned for {len(pre)} given"
    for i, (a, b) in enumerate(zip(pre, res)):
        if not isinstance(b, (list, tuple)):
            return f"team {i} is {type(b).__name__}"
        if len(a) != len(b):
            return f"team {i}: {len(b)} players returned for {len(a)} given"
        for j, p in enumerate(b):
            if not is_rating(p):
                return f"slot ({i},{j}) is {type(p).__name__}"
            if not (isinstance(p.mu, (int, float)) and isinstance(p.sigma, (int, float))):
                return f"slot ({i},{j}) has non-numeric mu/sigma"
    return None


def exc_detail(e):
    return f"{type(e).__name__}: {str(e)[:200]}"


def reference(run):
    from .refmodel import ref_rate

    case = run.case
    return ref_rate(
        run.kind, run.cfg["beta"], run.cfg["kappa"], run.tau, run.limit, GAMMAS[run.cfg["gamma"]],
        [[(p[0], p[1]) for p in t] for t in case["teams"]], rankvals_of(case),
    )


def updated(run, rel=1e-6):
    """did an update actually happen for some player (|dmu| > rel * prior sigma)"""
    if run.res is None:
        return False
    for tp, tr in zip(run.pri, run.res):
        for (mu0, s0, _, _), (mu1, s1) in zip(tp, tr):
            if abs(mu1 - mu0) > rel * abs(s0) or abs(s1 - s0) > rel * abs(s0):
                return True
    return False


def scale_decade(cfg):
    return int(round(math.log10(cfg["beta"] / (25.0 / 6.0))))


def common_buckets(ctx, run, meta):
    c = run.cfg
    ctx.bucket("model_x_k", f"{run.kind}/k={len(run.pri)}")
    ctx.bucket("ties", f"{run.kind}/{meta.get('ties')}")
    ctx.bucket("regime", meta.get("regime"))
    ctx.bucket("gamma", c["gamma"].split(":")[0])
    ctx.bucket("scale_decade", scale_decade(c))
    ctx.bucket("encoding", meta.get("enc"))
    ctx.bucket("kappa", c["kappa"])
    ctx.bucket("tau_eff", "zero" if run.tau == 0 else ("small" if run.tau < 0.05 * c["beta"] else "large"))
    ctx.bucket("limit_sigma", f"model={c['limit_sigma']}/call={(run.case.get('call') or {}).get('limit_sigma')}")
    ctx.bucket("rating_ids", run.case.get("ids", "unique"))
    ctx.bucket("app_types", run.case.get("flavour", "plain"))


def aim_at_floor_window(case, rng):
    """Workload shaping (not an oracle): choose a constant gamma so that one player's variance factor
    1 - share*delta lands strictly inside (0, kappa), the window just above the kappa floor that random games almost
    never hit.  The factor is linear in a constant gamma, so one exploratory run of the real code with gamma = 1 gives
    share*delta per slot; the returned case is then judged by the reference like any other."""
    import math

    c1 = dict(case, cfg=dict(case["cfg"], gamma="one"), call=dict(case.get("call") or {}, limit_sigma=False))
    r = run_case(c1)
    if r.res is None:
        return None
    kappa = r.cfg["kappa"]
    cands = []
    for tp, tr in zip(r.pri, r.res):
        for (mu0, s0, _, _), (mu1, s1) in zip(tp, tr):
            infl = s0 * s0 + r.tau * r.tau
            if infl <= 0:
                continue
            f1 = (s1 * s1) / infl
            if kappa * 1.001 < f1 < 1 - 1e-9:
                cands.append(1 - f1)
    if not cands:
        return None
    d = rng.choice(cands)
    u = rng.uniform(0.05, 0.95)
    g = (1 - kappa * u) / d
    if not (0 < g <= 1e4) or not math.isfinite(g):
        return None  # keep the callback in a range an application could plausibly use
    return dict(case, cfg=dict(case["cfg"], gamma=f"const:{g!r}"))
