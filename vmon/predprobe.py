"""Shared helpers for the prediction checks (C09-C12)."""
import math

from . import gen
from .attach import observe
from .util import build, MODEL_NAMES


def gen_pred_case(rng, model=None, regime=None, kmax=8, pmax=8):
    model = model or rng.choice(MODEL_NAMES)
    cfg = gen.gen_cfg(rng)
    explicit = regime is not None
    regime = regime or rng.choice(["typical", "typical", "wide", "mismatch", "tiny_sigma", "huge_sigma", "corners", "round_numbers", "coincidences",
                                   "identical", "equal_size"])
    teams, regime = gen.gen_teams(rng, cfg["beta"], kmax=kmax, pmax=pmax, regime=regime, default_rating=(cfg["mu"], cfg["sigma"]))
    if regime == "identical" and len(teams) >= 3 and rng.random() < 0.5:
        # only some teams identical: probability ties of size 2 or 3 among otherwise different teams
        other, _ = gen.gen_teams(rng, cfg["beta"], kmin=len(teams), kmax=len(teams), pmax=pmax, regime="typical")
        keep = rng.sample(range(len(teams)), rng.choice([2, 3]) if len(teams) > 3 else 2)
        teams = [teams[i] if i in keep else other[i] for i in range(len(teams))]
        regime = "partly_identical"
    if regime in ("identical", "partly_identical", "equal_size") and rng.random() < 0.35:
        # NEARLY level teams: a copy of another team with one member's mu moved by 1 ulp .. 1e-9 relative (strictly
        # different probabilities that a tolerance-based tie test would merge)
        i, j = rng.sample(range(len(teams)), 2)
        teams[j] = [list(p) for p in teams[i]]
        for p_i, p in enumerate(teams[j]):
            p[2] = f"n{j}_{p_i}"
        w = rng.randrange(len(teams[j]))
        mu = teams[j][w][0]
        step = rng.choice(["ulp", 1e-15, 1e-12, 1e-10, 3e-10, 1e-9])
        teams[j][w][0] = math.nextafter(mu, math.inf) if step == "ulp" else mu + max(abs(mu), cfg["beta"]) * step * rng.choice([1, -1])
        regime = "near_identical"
    if not explicit and rng.random() < 0.05:
        # sigma -> 0 (the stated range of the predictions includes it): certain players, sigma exactly 0 or far below
        # 1e-4 beta, half of the games between exactly level teams - predict_draw of two level single players is then 1
        # up to rounding, the supremum of the two-team form
        b = cfg["beta"]
        k = min(kmax, rng.choice([2, 2, 2, 3, 4]))
        n = min(pmax, rng.choice([1, 1, 1, 2]))
        mu = rng.uniform(-20 * b, 20 * b) / n
        level = rng.random() < 0.5
        teams = [[[mu if level else rng.uniform(-20 * b, 20 * b) / n, rng.choice([0.0, 0, 1e-12 * b, 1e-9 * b, 1e-6 * b]), f"z{i}_{j}"]
                  for j in range(n)] for i in range(k)]
        regime = "vanishing_sigma"
    case = dict(model=model, cfg=cfg, teams=teams, sel=None, vals=None, call={})
    if rng.random() < 0.05:
        case["names"] = rng.choice(["same", "none"])
    if rng.random() < 0.1:
        case["ids"] = "shared"  # distinct objects carrying the same id string (deepcopy clones keep the id)
    if rng.random() < 0.06:
        from .util import FLAVOURS

        case["flavour"] = rng.choice(FLAVOURS)  # list subclasses / a model subclass / ratings with extra attributes
    return case, dict(regime=regime, k=len(teams))


def call_pred(case, op, teams_override=None, alias=False):
    """alias=True: teams with identical content are passed as ONE list object in several slots (and identical players
    inside different teams as one rating object) -- valid for the predict operations, which do not mutate"""
    c = case if teams_override is None else dict(case, teams=teams_override)
    model, teams, _ = build(c)
    if alias == "ratings":
        # identical PLAYERS (same mu, sigma) anywhere in the game are passed as one rating object, in separate lists
        firstp = {}
        for t in teams:
            for j, p in enumerate(t):
                key = (p.mu, p.sigma)
                if key in firstp:
                    t[j] = firstp[key]
                else:
                    firstp[key] = p
    elif alias:
        first = {}
        for i, t in enumerate(c["teams"]):
            key = tuple((p[0], p[1]) for p in t)
            if key in first:
                teams[i] = teams[first[key]]
            else:
                first[key] = i
    return observe(model, op, teams)


def has_identical_teams(teams):
    keys = [tuple((p[0], p[1]) for p in t) for t in teams]
    return len(set(keys)) < len(keys)


def alias_clause(ctx, kind, payload, case, op, base_res, model, reg):
    """shadow execution: the same call with identical teams passed as the same list object must return the same bits"""
    if not has_identical_teams(case["teams"]):
        return
    for how in (True, "ratings"):
        o = call_pred(case, op, alias=how)
        ctx.ev("aliased==separate")
        if o.exc is not None or repr(o.res) != repr(base_res):
            ctx.violation("aliased==separate", kind, payload,
                          dict(op=op, aliasing="team lists" if how is True else "rating objects", separate=repr(base_res)[:200],
                               aliased=repr(o.res)[:200] if o.exc is None else repr(o.exc)), model, reg)


def inplace_clause(ctx, kind, payload, case, op, model_name, reg):
    """history on the SAME objects: call, edit one rating's mu and another's sigma IN PLACE (as rate() itself does), call
    again through the same model with the same lists - the second result must be, bit for bit, what a fresh model returns
    for fresh objects holding the edited values (a result remembered per line-up must not survive the edit)"""
    model, teams, _ = build(case)
    first = observe(model, op, teams)
    if first.exc is not None:
        return
    beta = case["cfg"]["beta"]
    edited = [[list(p) for p in t] for t in case["teams"]]
    m0 = edited[0][0][0]
    edited[0][0][0] = m0 + 0.75 * beta if m0 + 0.75 * beta <= 20 * beta else m0 - 0.75 * beta  # stays inside the stated box
    edited[-1][-1][1] = min(edited[-1][-1][1] * 1.5 + 0.01 * beta, 10 * beta)
    teams[0][0].mu = edited[0][0][0]
    teams[-1][-1].sigma = edited[-1][-1][1]
    again = observe(model, op, teams)
    fresh = call_pred(dict(case, flavour=None), op, edited)
    ctx.ev("in-place-edit==fresh")
    if again.exc is not None or fresh.exc is not None or repr(again.res) != repr(fresh.res):
        ctx.violation("in-place-edit==fresh", kind, payload,
                      dict(op=op, app_types=case.get("flavour"), after_edit=repr(again.res)[:200] if again.exc is None else repr(again.exc),
                           fresh=repr(fresh.res)[:200] if fresh.exc is None else repr(fresh.exc), before_edit=repr(first.res)[:120]),
                      model_name, reg)
    scribble(again.res)


def team_mu(teams):
    return [math.fsum(p[0] for p in t) for t in teams]


def in01(x, slack_ulps=4):
    return isinstance(x, (int, float)) and -slack_ulps * 2.3e-16 <= x <= 1 + slack_ulps * 2.3e-16


def scribble(res):
    """what a caller may do with a returned container: edit it in place.  A call that hands out a shared list (a module
    constant, a cached result) is exposed by the next call that returns the same object."""
    if isinstance(res, list):
        for i in range(len(res)):
            res[i] = -12345.678
        res.append("scribbled")
