"""./check CNN --tier quick|thorough [--seed N] [--shards N]   |   ./check CNN --replay FILE

Shards a check over worker processes (subprocess.run with a watchdog, never multiprocessing.Pool),
merges what their monitors observed, classifies violations against known_findings.json, writes
replay files and evidence/CNN.json, prints the verdict lines and sets the exit code:
  0 held on everything observed (KNOWN-FINDING lines allowed) | 1 VIOLATION | 2 INCONCLUSIVE
"""
import argparse
import importlib
import json
import os
import subprocess
import sys
import tempfile
import time
from concurrent.futures import ThreadPoolExecutor

from .util import VERIF, REPO, canon_hash
from . import verdict


def parse():
    ap = argparse.ArgumentParser()
    ap.add_argument("check")
    ap.add_argument("--tier", default=os.environ.get("VERIF_TIER") or "quick", choices=["quick", "thorough"])
    ap.add_argument("--seed", type=int, default=int(os.environ.get("VERIF_SEED") or 0))
    ap.add_argument("--shards", type=int, default=int(os.environ.get("VERIF_SHARDS") or 0))
    ap.add_argument("--replay")
    ap.add_argument("--no-evidence", action="store_true")
    return ap.parse_args()


def run_worker(check, tier, seed, shard, nshards, outdir, timeout):
    out = os.path.join(outdir, f"w{shard}.json")
    cmd = [sys.executable, "-m", "vmon.worker", check, tier, str(seed), str(shard), str(nshards), out]
    env = dict(os.environ)
    env["PYTHONDONTWRITEBYTECODE"] = "1"
    env.setdefault("PYTHONHASHSEED", "0")
    try:
        p = subprocess.run(cmd, cwd=VERIF, env=env, timeout=timeout, capture_output=True, text=True)
    except subprocess.TimeoutExpired:
        return dict(error=f"worker {shard} watchdog fired after {timeout}s")
    if p.returncode != 0 or not os.path.exists(out):
        return dict(error=f"worker {shard} exit {p.returncode}: {(p.stderr or p.stdout)[-1500:]}")
    with open(out) as f:
        return json.load(f)


def merge_reach(dumps):
    out = {}
    for d in dumps:
        for k, (h, t, un) in (d.get("reach") or {}).items():
            if k not in out:
                out[k] = [t, set(un)]
            else:
                out[k][1] &= set(un)
    return {k: dict(reached=v[0] - len(v[1]), total=v[0], unreached=sorted(v[1])[:20]) for k, v in sorted(out.items())}


def merge_raised(dumps):
    out = {}
    for d in dumps:
        for k, n in (d.get("raised") or {}).items():
            out[k] = out.get(k, 0) + n
    return dict(sorted(out.items()))


def _strict(o):
    """evidence files are strict JSON: non-finite floats (a rank label of +-inf in a sample) are written as strings"""
    if isinstance(o, float) and (o != o or o in (float("inf"), float("-inf"))):
        return repr(o)
    if isinstance(o, dict):
        return {k: _strict(v) for k, v in o.items()}
    if isinstance(o, (list, tuple)):
        return [_strict(v) for v in o]
    return o


def main():
    a = parse()
    check = a.check.upper()
    mod = importlib.import_module(f"vmon.checks.{check.lower()}")
    t0 = time.time()
    known = verdict.load_known()

    if a.replay:
        return replay(mod, check, a.replay, known)

    nshards = a.shards or getattr(mod, "SHARDS", {}).get(a.tier, 16 if a.tier == "thorough" else 12)
    timeout = float(os.environ.get("VERIF_WATCHDOG") or (900 if a.tier == "quick" else 6 * 3600))
    problems = []
    with tempfile.TemporaryDirectory(prefix="vmon-") as td:
        with ThreadPoolExecutor(max_workers=min(nshards, os.cpu_count() or 4)) as ex:
            futs = [ex.submit(run_worker, check, a.tier, a.seed, s, nshards, td, timeout) for s in range(nshards)]
            dumps = [f.result() for f in futs]
            for d in dumps:
                if "error" in d:
                    problems.append(d["error"])
            good = [d for d in dumps if "error" not in d]
            nt_files = [d["nontrivial_file"] for d in good if d.get("nontrivial_file")]
            nt_count = None
            if nt_files:
                # union of the distinct-case hashes of all shards, counted out of core
                inline = os.path.join(td, "inline.nt")
                with open(inline, "w") as f:
                    for d in good:
                        if d["nontrivial"]:
                            f.write("\n".join(d["nontrivial"]) + "\n")
                        d["nontrivial"] = []
                p = subprocess.run("cat " + " ".join(nt_files + [inline]) + " | LC_ALL=C sort -u -S 2G | wc -l", shell=True,
                                   capture_output=True, text=True)
                nt_count = int(p.stdout.strip() or 0)
    merged = verdict.merge(good) if good else None
    if merged is not None and nt_count is not None:
        merged["nontrivial"] = range(nt_count)  # only its length is used from here on
    if merged is not None:
        merged["reach"] = merge_reach(good)
        merged["raised"] = merge_raised(good)

    extra = {}
    if merged is not None and hasattr(mod, "driver_steps"):
        try:
            extra = mod.driver_steps(a.tier, a.seed, merged) or {}
        except verdict.Inconclusive as e:
            problems.append(f"driver step: {e}")
    if merged is not None and getattr(mod, "PYTEST_PREFIX", None) and not os.environ.get("VERIF_NO_REPO_TESTS"):
        # the repository's own tests as one more workload, with this property's single-call contracts switched on
        from . import contracts_on_tests

        try:
            pt = contracts_on_tests.run(mod.PYTEST_PREFIX)
            extra.setdefault("violations", []).extend(pt.pop("violations"))
            for k, v in pt.pop("evals").items():
                extra.setdefault("evals", {})[k] = v
            extra.update(pt)
        except (verdict.Inconclusive, Exception) as e:  # noqa: BLE001
            problems.append(f"repo tests under contracts: {e!r}"[:400])
    if merged is not None:
        for v in extra.pop("violations", []):
            merged["violations"].append(v)
            merged["nviol"] += 1
        for k, v in extra.pop("evals", {}).items():
            merged["evals"][k] = merged["evals"].get(k, 0) + v

    # ---- reach floors: a deciding monitor that was never (or too rarely) reached => inconclusive
    if merged is not None:
        floors = mod.floors(a.tier) if hasattr(mod, "floors") else {}
        scale = float(os.environ.get("VERIF_BUDGET_SCALE", "1"))
        for clause, need in floors.items():
            got = merged["evals"].get(clause, 0)
            if got < max(1, int(need * min(1.0, scale))):
                problems.append(f"monitor clause '{clause}' evaluated {got} times (< floor {need})")
        if len(merged["nontrivial"]) < 2:
            problems.append(f"only {len(merged['nontrivial'])} distinct non-trivial cases observed")

    # ---- classify violations
    new, kf_lines = [], {}
    if merged is not None:
        for v in merged["violations"]:
            ent = verdict.classify(v, known)
            if ent is not None:
                kf_lines[ent["what"]] = kf_lines.get(ent["what"], 0) + 1
            else:
                new.append(v)
        # violations beyond the kept sample cannot be classified: count them as new unless every
        # kept one was known
        overflow = merged["nviol"] - len(merged["violations"])
    else:
        overflow = 0

    # ---- replay files, one per witness class
    lines = []
    seen_cls = set()
    os.makedirs(os.path.join(VERIF, "replays"), exist_ok=True)
    # round-robin over clauses so that the (at most 10) printed witnesses cover as many clauses as possible
    byclause = {}
    for v in new:
        byclause.setdefault(v["clause"], []).append(v)
    ordered = []
    while any(byclause.values()):
        for c in sorted(byclause):
            if byclause[c]:
                ordered.append(byclause[c].pop(0))
    for v in ordered:
        cls = (v["clause"], v.get("model"), v.get("regime"))
        if cls in seen_cls or len(lines) >= 10:
            continue
        seen_cls.add(cls)
        path = os.path.join("replays", f"{check}-{canon_hash(v)}.json")
        with open(os.path.join(VERIF, path), "w") as f:
            json.dump(v, f, indent=1, default=repr)
        lines.append((path, v))

    wall = time.time() - t0
    if merged is not None and not a.no_evidence:
        write_evidence(mod, check, a, merged, extra, new, kf_lines, problems, wall, nshards)

    for what, n in kf_lines.items():
        print(f"KNOWN-FINDING: property={check} {what} (observed {n}x)")
    if new or (overflow > 0 and new):
        for path, v in lines:
            d = json.dumps(v["detail"], default=repr)
            print(f"VIOLATION property={check} replay={path} clause={v['clause']} model={v.get('model')} {d[:300]}")
        print(f"{check}: {len(new)} violating observations kept ({merged['nviol']} total) in {len(seen_cls)} classes; "
              f"{sum(merged['evals'].values())} monitor evaluations; tree={REPO}")
        return 1
    if problems:
        for p in problems:
            print(f"INCONCLUSIVE property={check} reason={p}")
        return 2
    print(f"{check} [{a.tier}, seed {a.seed}]: held on {sum(merged['evals'].values())} monitor evaluations over "
          f"{merged['cases']} cases ({len(merged['nontrivial'])} distinct non-trivial) in {wall:.1f}s; tree={REPO}")
    return 0


def write_evidence(mod, check, a, merged, extra, new, kf_lines, problems, wall, nshards):
    cov = dict(
        evaluations=int(sum(merged["evals"].values())),
        distinct_nontrivial=len(merged["nontrivial"]),
        rule=mod.RULE,
        samples=merged["samples"],
        cases=merged["cases"],
        observed=dict(
            evaluations_per_clause=dict(sorted(merged["evals"].items())),
            skipped_by_precondition=dict(sorted(merged["skipped"].items())),
            buckets={k: dict(sorted(v.items())) for k, v in sorted(merged["buckets"].items())},
            max_error_over_tolerance={k: float(f"{v:.4g}") for k, v in sorted(merged["maxfrac"].items())},
            counters=dict(sorted(merged["counters"].items())),
            notes=merged["notes"],
            lines_reached=merged.get("reach", {}),
            exceptions_raised_inside_repo=merged.get("raised", {}),
        ),
        shards=nshards,
        tree=REPO,
    )
    if getattr(mod, "EXHAUSTIVE", None):
        done = bool(merged["counters"].get("exhaustive_complete", 0) >= nshards)
        if mod.LEVEL == "fault_enumeration":
            # the enumerated space (grammar x positions of the base games) IS what the level claims
            cov["exhaustive"] = done
            cov["exhaustive_scope"] = mod.EXHAUSTIVE
        else:
            # an exploration that contains completely enumerated sub-spaces: said so, without claiming the whole run
            cov["exhaustive"] = False
            cov["exhaustively_enumerated_subspaces"] = dict(description=mod.EXHAUSTIVE, completed=done)
    cov["observed"].update(extra)
    if kf_lines:
        cov["known_findings_observed"] = kf_lines
    if problems:
        cov["inconclusive_reasons"] = problems
    ev = dict(
        property_id=check, tier=a.tier, seed=a.seed, level=mod.LEVEL, coverage=cov,
        assumptions=list(mod.ASSUMPTIONS), wall_s=round(wall, 2), violations=len(new),
        verdict=("violated" if new else ("inconclusive" if problems else "held-on-observed")),
    )
    os.makedirs(os.path.join(VERIF, "evidence"), exist_ok=True)
    tmp = os.path.join(VERIF, "evidence", f".{check}.tmp")
    with open(tmp, "w") as f:
        json.dump(_strict(ev), f, indent=1, default=repr, allow_nan=False)
    os.replace(tmp, os.path.join(VERIF, "evidence", f"{check}.json"))


def replay(mod, check, path, known):
    from .verdict import Ctx

    with open(path if os.path.isabs(path) or os.path.exists(path) else os.path.join(VERIF, path)) as f:
        v = json.load(f)
    ctx = Ctx(check, v.get("tier", "quick"), v.get("seed", 0))
    ctx.replaying = True
    if hasattr(mod, "setup"):
        mod.setup(ctx)
    if v["kind"] == "pytest":
        # witness came from the repository's own tests run under contracts: re-run them
        from . import contracts_on_tests

        pt = contracts_on_tests.run(mod.PYTEST_PREFIX)
        for k, n in pt["evals"].items():
            ctx.ev(k, n)
        for x in pt["violations"]:
            ctx.violations.append(x)
            ctx.nviol += 1
    else:
        mod.PROBES[v["kind"]](ctx, v["payload"])
    print(f"replayed {path}: {sum(ctx.evals.values())} monitor evaluations, {ctx.nviol} violations; tree={REPO}")
    newv = [x for x in ctx.violations if verdict.classify(x, known) is None]
    for x in ctx.violations:
        print(f"  clause={x['clause']} model={x.get('model')} detail={json.dumps(x['detail'], default=repr)[:600]}")
    if newv:
        print(f"VIOLATION property={check} replay={path}")
        return 1
    return 0


if __name__ == "__main__":
    sys.exit(main())
