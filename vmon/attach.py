"""Observation of real calls at the client boundary.

* observe(model, op, teams, **kw): snapshot every reachable rating and the model's attributes, arm the
  attribute-write tap for that model object, call the REAL method, snapshot again -> Obs record.
* install_taps(): __setattr__/__delattr__ taps on the five model classes (armed per live object),
  module-globals snapshots of every openskill.* module.
* wrap_corrections(): rebinding of v/w/vt/wt/phi_major in every openskill.* module that imported them,
  with per-function call counters and an optional observer callback (C17 in-situ).
"""
import math
import sys
import threading
import types

from .util import bootstrap, models

bootstrap()

_tls = threading.local()


class Obs:
    __slots__ = ("op", "model", "cls", "pre", "pre_attrs", "kw", "res", "exc", "writes", "post_attrs",
                 "inputs_after", "globals_changed", "raw")


def rating_classes():
    Ms = models()
    out = {}
    for name, Mc in Ms.items():
        out[name] = type(Mc().rating())
    return out


_RC = None


def is_rating(o):
    global _RC
    if _RC is None:
        _RC = tuple(rating_classes().values())
    return isinstance(o, _RC)


def walk_ratings(obj, out=None, seen=None, depth=0):
    """every rating object reachable through lists/tuples/dicts/sets"""
    if out is None:
        out, seen = [], set()
    if id(obj) in seen or depth > 6:
        return out
    seen.add(id(obj))
    if is_rating(obj):
        out.append(obj)
    elif isinstance(obj, (list, tuple, set, frozenset)):
        for x in obj:
            walk_ratings(x, out, seen, depth + 1)
    elif isinstance(obj, dict):
        for k, x in obj.items():
            walk_ratings(k, out, seen, depth + 1)
            walk_ratings(x, out, seen, depth + 1)
    return out


def snap_rating(p):
    return dict(pyid=id(p), id=getattr(p, "id", None), name=getattr(p, "name", None),
                mu=getattr(p, "mu", None), sigma=getattr(p, "sigma", None), obj=p)


def snap_teams(teams):
    """[[slot dict]] for a well-formed teams argument"""
    return [[snap_rating(p) for p in team] for team in teams]


def snap_attrs(model):
    return dict(vars(model))


# ---------------------------------------------------------------- attribute-write tap
_armed = {}  # id(model) -> [model, depth, writes]  (holds the live object, so ids cannot be reused)
_armed_lock = threading.Lock()
_taps_installed = False
TAP_EVENTS = {"set": 0, "del": 0}


def install_taps():
    global _taps_installed
    if _taps_installed:
        return
    _taps_installed = True
    for name, Mc in models().items():
        orig_set = Mc.__setattr__
        orig_del = Mc.__delattr__

        def tap_set(self, k, v, _o=orig_set):
            ent = _armed.get(id(self))
            if ent is not None and ent[0] is self:
                ent[2].append(("set", k, repr(v)[:80], threading.get_ident()))
                TAP_EVENTS["set"] += 1
            _o(self, k, v)

        def tap_del(self, k, _o=orig_del):
            ent = _armed.get(id(self))
            if ent is not None and ent[0] is self:
                ent[2].append(("del", k, None, threading.get_ident()))
                TAP_EVENTS["del"] += 1
            _o(self, k)

        Mc.__setattr__ = tap_set
        Mc.__delattr__ = tap_del


def arm(model):
    with _armed_lock:
        ent = _armed.get(id(model))
        if ent is None or ent[0] is not model:
            ent = [model, 0, []]
            _armed[id(model)] = ent
        ent[1] += 1
        return ent


def disarm(model):
    with _armed_lock:
        ent = _armed.get(id(model))
        if ent is not None and ent[0] is model:
            ent[1] -= 1
            if ent[1] <= 0:
                del _armed[id(model)]
            return ent[2]
    return []


# ---------------------------------------------------------------- module globals
def _openskill_modules():
    return {n: m for n, m in sys.modules.items() if n.split(".")[0] == "openskill" and m is not None}


def snap_globals():
    out = {}
    for n, m in _openskill_modules().items():
        for k, v in vars(m).items():
            if k.startswith("__") and k.endswith("__"):
                continue
            if isinstance(v, (int, float, str, bool, tuple, frozenset, type(None))):
                out[(n, k)] = ("v", v)
            elif isinstance(v, (list, dict, set)):
                out[(n, k)] = ("c", id(v), len(v), repr(v)[:200])
            else:
                try:
                    st = repr(sorted(vars(v).items()))[:300] if hasattr(v, "__dict__") and not isinstance(
                        v, (type, types.ModuleType, types.FunctionType)) else None
                except Exception:
                    st = None
                out[(n, k)] = ("o", id(v), st)
    return out


def diff_globals(a, b):
    ch = []
    for k in set(a) | set(b):
        if a.get(k) != b.get(k):
            ch.append((k[0], k[1]))
    return sorted(ch)


# ---------------------------------------------------------------- the observed call
def observe(model, op, *args, watch_globals=False, **kw):
    """Run the real `model.<op>(*args, **kw)` under observation."""
    install_taps()
    o = Obs()
    o.op = op
    o.model = model
    o.cls = type(model).__name__
    o.kw = kw
    roots = list(args) + list(kw.values())
    o.raw = walk_ratings(roots)
    o.pre = [snap_rating(p) for p in o.raw]
    o.pre_attrs = snap_attrs(model)
    g0 = snap_globals() if watch_globals else None
    arm(model)
    o.res = None
    o.exc = None
    try:
        o.res = getattr(model, op)(*args, **kw)
    except Exception as e:  # noqa: BLE001 - the monitor records whatever escapes
        o.exc = e
    finally:
        o.writes = list(disarm(model))
    o.post_attrs = snap_attrs(model)
    o.inputs_after = [snap_rating(p) for p in o.raw]
    o.globals_changed = diff_globals(g0, snap_globals()) if watch_globals else []
    return o


def attrs_changed(o):
    ch = []
    for k in set(o.pre_attrs) | set(o.post_attrs):
        a = o.pre_attrs.get(k, "<absent>")
        b = o.post_attrs.get(k, "<absent>")
        if a is not b and a != b:
            ch.append((k, repr(a)[:60], repr(b)[:60]))
        elif isinstance(a, float) and isinstance(b, float) and math.copysign(1, a) != math.copysign(1, b):
            ch.append((k, repr(a), repr(b)))
        elif type(a) is not type(b):
            ch.append((k, repr(a)[:60], repr(b)[:60]))
    return sorted(ch)


def inputs_changed(o):
    ch = []
    for a, b in zip(o.pre, o.inputs_after):
        for f in ("id", "name", "mu", "sigma"):
            x, y = a[f], b[f]
            same = (x == y and type(x) is type(y)) or (x is y)
            if isinstance(x, float) and isinstance(y, float):
                same = (x == y and math.copysign(1, x) == math.copysign(1, y)) or (x != x and y != y)
            if not same:
                ch.append((a["name"], f, repr(x), repr(y)))
    return ch


# ---------------------------------------------------------------- corrections rebinding
CORR_COUNTS = {}
_corr_observer = [None]
_corr_wrapped = False


def wrap_corrections(observer=None):
    """Rebind v, w, vt, wt, phi_major wherever an openskill module holds the original object."""
    global _corr_wrapped
    _corr_observer[0] = observer
    if _corr_wrapped:
        return
    _corr_wrapped = True
    import openskill.models.weng_lin.common as common

    for nm in ("v", "w", "vt", "wt", "phi_major"):
        orig = getattr(common, nm, None)
        if orig is None:
            continue
        CORR_COUNTS[nm] = 0

        def make(fn, nm):
            def inner(*a):
                CORR_COUNTS[nm] += 1
                r = fn(*a)
                ob = _corr_observer[0]
                if ob is not None and not getattr(_tls, "in_obs", False):
                    _tls.in_obs = True
                    try:
                        ob(nm, a, r)
                    finally:
                        _tls.in_obs = False
                return r

            inner.__wrapped__ = fn
            inner.__name__ = nm
            return inner

        wr = make(orig, nm)
        for name, mod in _openskill_modules().items():
            if getattr(mod, nm, None) is orig:
                setattr(mod, nm, wr)


def originals():
    """the unwrapped correction functions of the tree under test"""
    import openskill.models.weng_lin.common as common

    out = {}
    for nm in ("v", "w", "vt", "wt", "phi_major"):
        f = getattr(common, nm)
        out[nm] = getattr(f, "__wrapped__", f)
    return out
