"""League simulations: many games on a persistent population, ratings fed back (history workloads)."""
import math
import random

from .util import models, GAMMAS


def make_model(model_name, cfg, Ms=None):
    Ms = Ms or models()
    c = dict(cfg)
    c.pop("_defaults", None)
    if c.pop("_modelsub", False):
        from .util import user_subclass

        return_cls = user_subclass(Ms[model_name])
    else:
        return_cls = Ms[model_name]
    g = c.pop("gamma", "default")
    if GAMMAS[g] is not None:
        c["gamma"] = GAMMAS[g]
    return return_cls(**c)


def in_box(cfg, teams):
    """are all priors of this game inside the supported numeric range of C08 (|mu| <= 20 beta, sigma in [1e-4, 10] beta)?"""
    b = cfg.get("beta", 25 / 6)
    return all(abs(p.mu) <= 20 * b and 1e-4 * b <= p.sigma <= 10 * b for t in teams for p in t)


def league_cfg(rng, gen, **kw):
    """a model configuration for leagues: tau at most 0.3 beta, so that thousands of fed-back games stay inside the
    supported range (with tau = 10 beta per game and adversarial outcomes mu grows geometrically and leaves it)"""
    cfg = gen.gen_cfg(rng, **kw)
    b = cfg["beta"]
    cfg["tau"] = rng.choice([0.0, 1e-3 * b, cfg["mu"] / 300.0, cfg["mu"] / 300.0, 0.1 * b, 0.3 * b])
    return cfg


def league(params, on_game, Ms=None):
    """Deterministic league from params = dict(model, cfg, players, games, mode, seed, percall).
    on_game(step, model, teams(objects before), kwargs, prior [[(mu, sigma)]], call) must perform the rate call
    and return the list of teams of rating objects to keep (normally what rate returned), or None to stop."""
    rng = random.Random(params["seed"])
    model = make_model(params["model"], params["cfg"], Ms)
    cfg = params["cfg"]
    beta = cfg.get("beta", 25 / 6)
    P = params["players"]
    pop = [model.rating(name=f"L{i}") for i in range(P)]
    # anchors: a few reference players whose skill is (nearly) certain - bots, calibration accounts.  Their updates are
    # far below one ulp of mu, the regime where anything carried on the object besides (mu, sigma) would matter.
    for i in range(min(params.get("anchors", 0), P)):
        pop[i] = model.rating(cfg.get("mu", 25.0) * (1 + 0.2 * i), [1e-7, 3e-8, 1e-6, 1e-9][i % 4] * beta, f"A{i}")
    skill = [rng.gauss(0, 2 * beta) for _ in range(P)]
    mode = params["mode"]
    for step in range(params["games"]):
        k = rng.choice([2, 2, 2, 3, 4, 5])
        sizes = [rng.choice([1, 1, 2, 3]) for _ in range(k)]
        if sum(sizes) > P:
            sizes = [1] * k
        ids = rng.sample(range(P), sum(sizes))
        teams_idx, pos = [], 0
        for s in sizes:
            teams_idx.append(ids[pos:pos + s])
            pos += s
        teams = [[pop[i] for i in t] for t in teams_idx]
        if mode == "skill":
            perf = [sum(skill[i] for i in t) + rng.gauss(0, beta * math.sqrt(len(t))) for t in teams_idx]
            coarse = beta * 1.5
            ranks = [-int(round(p / coarse)) for p in perf]  # ~20% ties by coarse rounding
        elif mode == "random":
            ranks = [rng.randrange(k) for _ in range(k)]
        else:  # adversarial: the lowest-rated team wins, ... the highest-rated comes last
            tot = [sum(p.mu for p in t) for t in teams]
            order = sorted(range(k), key=lambda i: tot[i])
            ranks = [0] * k
            for place, i in enumerate(order):
                ranks[i] = place
            if rng.random() < 0.15:  # occasional tie between the two extremes' neighbours
                ranks[order[-1]] = ranks[order[-2]] if k > 2 else ranks[order[-1]]
        kw = {}
        if rng.random() < 0.5:
            kw["ranks"] = ranks
        else:
            kw["scores"] = [-r for r in ranks]
        call = {}
        if params.get("percall"):
            if rng.random() < 0.3:
                call["tau"] = rng.choice([0, 0.0, 1e-3 * beta, 0.3 * beta, cfg.get("tau", 25 / 300)])
            if rng.random() < 0.3:
                call["limit_sigma"] = rng.choice([True, False])
        kw.update(call)
        prior = [[(p.mu, p.sigma) for p in t] for t in teams]
        out = on_game(step, model, teams, kw, prior, call)
        if out is None:
            return
        for t_idx, t_out in zip(teams_idx, out):
            for i, p in zip(t_idx, t_out):
                pop[i] = p
