"""Workload generators.  Everything is driven by a random.Random supplied by the caller."""
import itertools
import math

from .util import MODEL_NAMES, KIND

REGIMES = ["typical", "wide", "mismatch", "tiny_sigma", "huge_sigma", "corners", "identical", "equal_size", "round_numbers", "coincidences"]
GAMMA_NAMES = ["default", "default", "default", "default", "one", "inv_k", "three", "dep", "dep", "zero", "int_one", "int_zero",
               "int_k_minus_rank"]


def gen_cfg(rng, scale=None, gammas=GAMMA_NAMES, kappas=(1e-6, 1e-4, 1e-4, 1e-4, 1e-3, 1e-2), tm_safe=False):
    """A model configuration; (mu, sigma, beta, tau) are rescaled together."""
    if scale is None and gammas is GAMMA_NAMES and rng.random() < 0.06:
        # the documented default configuration, NOT passed to the constructor (util.build leaves the parameters out)
        return dict(mu=25.0, sigma=25.0 / 3.0, beta=25.0 / 6.0, kappa=0.0001, tau=25.0 / 300.0, limit_sigma=False,
                    gamma=rng.choice(["default", "default", "dep"]), _defaults=True)
    if scale is None and gammas is GAMMA_NAMES and rng.random() < 0.04:
        # parameters typed as Python ints and related by exact coincidences (tau == sigma, beta == 1, kappa == tau ...):
        # what people write in a config file
        b = rng.choice([4, 1, 2, 5])
        cfg = dict(mu=rng.choice([25, 0, 6 * b, 100]), sigma=rng.choice([8, 2 * b, b, 1]), beta=b,
                   kappa=rng.choice([1e-4, 1e-3, 1e-2]), tau=rng.choice([0, 1, b, 0.0]), limit_sigma=rng.choice([False, True]),
                   gamma=rng.choice(["default", "default", "one"]))
        if rng.random() < 0.3:
            cfg["tau"] = cfg["sigma"]
        if rng.random() < 0.15 and cfg["tau"] and cfg["tau"] <= 0.01 * b:
            cfg["kappa"] = float(cfg["tau"])
        if cfg["mu"] > 20 * b:
            cfg["mu"] = 6 * b
        cfg["sigma"] = min(cfg["sigma"], 10 * b)
        return cfg
    if scale is None:
        r = rng.random()
        if r < 0.45:
            scale = 1.0
        elif r < 0.85:
            scale = 10.0 ** rng.choice([-3, -2, -1, 1, 2, 3])
        else:
            scale = 10.0 ** rng.uniform(-3, 3)
    beta = 25.0 / 6.0 * scale
    if rng.random() < 0.3:
        beta *= rng.choice([0.25, 0.5, 2.0, 3.0])
    tau = rng.choice([0.0, 0, 1e-3 * beta, 25.0 / 300.0 * scale, 25.0 / 300.0 * scale, beta, 10 * beta])
    cfg = dict(
        mu=25.0 * scale,
        sigma=25.0 / 3.0 * scale,
        beta=beta,
        kappa=rng.choice(list(kappas)),
        tau=tau,
        limit_sigma=rng.choice([False, False, True]),
        gamma=rng.choice(list(gammas)),
    )
    if gammas is GAMMA_NAMES and rng.random() < 0.12:
        # a constant callback drawn log-uniformly: spreads the variance factor 1 - share*delta over (-inf, 1], so that the
        # window (0, kappa) just above the floor is hit too (kappa 1e-2 / 1e-3 preferred for that)
        cfg["gamma"] = f"const:{10 ** rng.uniform(-0.5, 2.5):.6g}"
        if rng.random() < 0.6:
            cfg["kappa"] = rng.choice([1e-2, 1e-2, 1e-3])
    return cfg


def _player(rng, regime, beta):
    if regime == "typical":
        mu = rng.gauss(6 * beta, 2 * beta)
        s = abs(rng.gauss(2 * beta, 0.7 * beta)) + 1e-3 * beta
    elif regime == "wide":
        mu = rng.uniform(-20 * beta, 20 * beta)
        s = 10 ** rng.uniform(-4, 1) * beta
    elif regime == "mismatch":
        mu = rng.choice([-1, 1]) * rng.uniform(0, 12) * beta + 6 * beta
        s = 10 ** rng.uniform(-2, 0.5) * beta
    elif regime == "tiny_sigma":
        mu = rng.uniform(-20 * beta, 20 * beta)
        s = 10 ** rng.uniform(-4, -2) * beta
    elif regime == "huge_sigma":
        mu = rng.uniform(-20 * beta, 20 * beta)
        s = rng.uniform(3, 10) * beta
    else:
        mu = rng.gauss(6 * beta, 3 * beta)
        s = 10 ** rng.uniform(-1, 0.6) * beta
    mu = max(-20 * beta, min(20 * beta, mu))
    s = max(1e-4 * beta, min(10 * beta, s))
    return mu, s


def gen_teams(rng, beta, kmin=2, kmax=8, pmax=8, regime=None, default_rating=None):
    """[[ [mu, sigma, name], ...], ...] inside the stated domain; returns (teams, regime).
    default_rating: the model's own (mu, sigma) - what model.rating() gives a newcomer - used exactly by some regimes"""
    regime = regime or rng.choice(REGIMES)
    k = rng.choice([2, 2, 3, 3, 4, 4, 5, 6, 7, 8])
    k = max(kmin, min(kmax, k))
    teams = []
    if regime == "corners":
        for i in range(k):
            n = rng.choice([1, 2, pmax])
            sign = 1 if (i % 2 == 0) else -1
            if rng.random() < 0.3:
                sign = rng.choice([-1, 1])
            s = rng.choice([1e-4 * beta, 10 * beta, beta])
            teams.append([[sign * 20 * beta, s * (1 + 1e-3 * rng.random())] for _ in range(n)])
    elif regime == "identical":
        n = rng.choice([1, 1, 2, 3])
        proto = [list(_player(rng, "typical", beta)) for _ in range(n)]
        teams = [[list(p) for p in proto] for _ in range(k)]
    elif regime == "coincidences":
        n = rng.choice([1, 1, 2, 3])
        proto = [list(_player(rng, "typical", beta)) for _ in range(n)]
        v = rng.random()
        if v < 0.4:
            # every PLAYER of the game holds exactly the same rating - newcomers at the model's default, or one imported
            # round value for everybody - in teams of the same or of DIFFERENT sizes (2v1, 1v3, 2v2v1)
            one = list(default_rating) if (default_rating is not None and rng.random() < 0.6) else list(proto[0])
            sizes = [n] * k if rng.random() < 0.4 else [rng.choice([1, 2, 3, rng.randint(1, pmax)]) for _ in range(k)]
            teams = [[list(one) for _ in range(max(1, min(sz, pmax)))] for sz in sizes]
        elif v < 0.7:
            # level team-mates: inside each team everybody holds the same rating, the teams differ
            teams = []
            for i in range(k):
                one = list(default_rating) if (default_rating is not None and i == 0) else list(_player(rng, "typical", beta))
                teams.append([list(one) for _ in range(max(1, min(pmax, rng.choice([2, 2, 3, rng.randint(2, max(2, pmax))]))))])
        elif default_rating is not None:
            # newcomers (exactly the model's default) mixed with rated players
            teams = [[(list(default_rating) if rng.random() < 0.6 else list(_player(rng, "typical", beta)))
                      for _ in range(min(pmax, rng.choice([1, 2, 3])))] for _ in range(k)]
        else:
            teams = [[list(p) for p in proto] for _ in range(k)]
    elif regime == "round_numbers":
        # the values people type and databases store: exact integers and simple fractions of the unit, zero, the defaults,
        # the same value for several players - where a fast path keyed on an exact value (sigma == 1, mu == 0, a default)
        # or an exact equality between players would be taken
        mus = [0.0, 0, 1.0, -1.0, 2.0, 5.0, 6.0, 10.0, -6.0, 0.5, 3.0, 4.0, 12.0, 6 * 1.0]
        sgs = [1.0, 2.0, 0.5, 0.25, 1, 2, 4.0, 0.125, 3.0, 8.0, 0.1, 1e-3]
        unit = beta * 6.0 / 25.0  # the skill unit: beta is 25/6 units
        for i in range(k):
            n = rng.choice([1, 1, 2, 3, rng.randint(1, pmax)])
            t = []
            for j in range(n):
                if rng.random() < 0.25:
                    # exactly the model's default rating
                    t.append(list(default_rating) if default_rating is not None else [25.0 * unit, 25.0 / 3.0 * unit])
                else:
                    m_, s_ = rng.choice(mus), rng.choice(sgs)
                    if unit == 1.0:
                        t.append([m_ * 25.0 / 6.0 if rng.random() < 0.3 else m_, s_])  # keeps ints int at the default unit
                    else:
                        t.append([m_ * beta, s_ * beta])
            teams.append(t)
        if k >= 2 and rng.random() < 0.3:
            # the same values on both sides in mirrored seating order, or another line-up with exactly the same total
            a = rng.randrange(k)
            b_ = (a + 1) % k
            if rng.random() < 0.5 or len(teams[a]) < 2:
                teams[b_] = [list(p) for p in reversed(teams[a])]
            else:
                tot = sum(p[0] for p in teams[a])
                n = len(teams[a])
                # ... and, half the time, another total variance (level on mu only)
                f_ = rng.choice([1.0, 0.5, 2.0])
                teams[b_] = [[tot / n, min(max(teams[a][j][1] * f_, 1e-4 * beta), 10 * beta)] for j in range(n)]
    elif regime == "equal_size":
        n = rng.choice([1, 1, 2, 3, rng.randint(1, pmax)])
        sub = rng.choice(["typical", "wide", "mismatch"])
        teams = [[list(_player(rng, sub, beta)) for _ in range(n)] for _ in range(k)]
    elif regime == "mismatch":
        # team-level gaps of 5..8.5 combined standard deviations between neighbours:
        # this is where the TM corrections enter their tails.
        base = rng.uniform(-3, 3) * beta
        for i in range(k):
            n = rng.choice([1, 1, 2, 3])
            s = [10 ** rng.uniform(-1.5, 0.3) * beta for _ in range(n)]
            teams.append([[0.0, x] for x in s])
        tot = base
        for i in range(k):
            n = len(teams[i])
            for j in range(n):
                teams[i][j][0] = max(-20 * beta, min(20 * beta, tot / n))
            if i + 1 < k:
                va = sum(p[1] ** 2 for p in teams[i]) + sum(p[1] ** 2 for p in teams[i + 1]) + 2 * beta * beta
                gap = rng.uniform(4.5, 9.0) * math.sqrt(va) * rng.choice([1, 1, -1])
                if rng.random() < 0.25:
                    gap *= rng.uniform(0.0, 0.6)
                tot = tot + gap
        rng.shuffle(teams)
    else:
        for i in range(k):
            n = rng.choice([1, 1, 2, 3, rng.randint(1, pmax)])
            teams.append([list(_player(rng, regime, beta)) for _ in range(n)])
    if regime in ("typical", "wide", "equal_size", "huge_sigma") and beta >= 1.0 and rng.random() < 0.06:
        # ratings given as Python ints (mu=25, sigma=8): valid values, and the only way an integer-division slip shows
        for t in teams:
            for p in t:
                p[0] = int(round(p[0]))
                p[1] = max(1, int(round(p[1])))
    for i, t in enumerate(teams):
        for j, p in enumerate(t):
            if len(p) < 3:
                p.append(f"p{i}_{j}")
    return teams, regime


# ---------------------------------------------------------------- outcomes
def weak_order(rng, k):
    """A weak order of k teams as dense levels 0..L-1 (lower = better)."""
    m = rng.random()
    if m < 0.3:
        lv = list(range(k))
        rng.shuffle(lv)
        return lv
    if m < 0.38:
        return [0] * k
    if m < 0.46:  # single winner
        lv = [1] * k
        lv[rng.randrange(k)] = 0
        return lv
    if m < 0.54:  # single loser
        lv = [0] * k
        lv[rng.randrange(k)] = 1
        return lv
    nl = rng.randint(1, k)
    lv = [rng.randrange(nl) for _ in range(k)]
    uniq = sorted(set(lv))
    return [uniq.index(x) for x in lv]


def all_weak_orders(k):
    """Every weak order of k items as dense level vectors (Fubini numbers 3, 13, 75, 541)."""
    seen = set()
    for lv in itertools.product(range(k), repeat=k):
        u = sorted(set(lv))
        if u == list(range(len(u))):
            seen.add(lv)
    return sorted(seen)


def compositions(k):
    """every composition of k (ordered tuple of tie-group sizes, best place first): 2^(k-1) of them"""
    out = []
    for mask in range(1 << (k - 1)):
        sizes, cur = [], 1
        for b in range(k - 1):
            if mask >> b & 1:
                sizes.append(cur)
                cur = 1
            else:
                cur += 1
        sizes.append(cur)
        out.append(tuple(sizes))
    return out


SIZE_PATTERNS = ["ones", "eights", "ramp", "one_big_first", "one_big_last", "alternating", "fours", "random"]


def shape_cases(rng, model, k, per_pattern=1):
    """Systematic SHAPES for k teams: every tie-group composition of k (2^(k-1): three-way ties, two separate tie groups,
    ties that include the first or the last place, all tied ...), the groups dealt to the teams in random listing order,
    combined in turn with team-size patterns (all single, all eight, 1..k ramp, one big team first/last, alternating 1/4,
    all four, random) - the games on which a formula that is only wrong for a particular number of teams, team size or tie
    structure shows.  Yields (case, meta)."""
    comps = compositions(k)
    for ci, comp in enumerate(comps):
        for rep in range(per_pattern):
            pat = SIZE_PATTERNS[(ci + rep * 3 + k) % len(SIZE_PATTERNS)]
            cfg = gen_cfg(rng)
            b = cfg["beta"]
            if pat == "ones":
                sizes = [1] * k
            elif pat == "eights":
                sizes = [8] * k
            elif pat == "ramp":
                sizes = [1 + i % 8 for i in range(k)]
            elif pat == "one_big_first":
                sizes = [8] + [1] * (k - 1)
            elif pat == "one_big_last":
                sizes = [1] * (k - 1) + [7]
            elif pat == "alternating":
                sizes = [1 if i % 2 else 4 for i in range(k)]
            elif pat == "fours":
                sizes = [4] * k
            else:
                sizes = [rng.randint(1, 8) for _ in range(k)]
            sub = rng.choice(["typical", "typical", "wide", "mismatch_lite"])
            teams = []
            for i, n in enumerate(sizes):
                t = []
                for j in range(n):
                    if sub == "mismatch_lite":
                        mu, sg = (6 + 3 * (i % 3) - 2 * (i % 2)) * b / n + rng.gauss(0, 0.3 * b), 10 ** rng.uniform(-1.5, 0.3) * b
                    else:
                        mu, sg = _player(rng, sub, b)
                        mu = mu / n if n >= 4 else mu
                    t.append([max(-20 * b, min(20 * b, mu)), sg, f"s{i}_{j}"])
                teams.append(t)
            levels = []
            for g, sz in enumerate(comp):
                levels += [g] * sz
            rng.shuffle(levels)
            sel, vals, style = outcome_kwargs(rng, levels, style=rng.choice(["int", "int0", "neg", "float"]))
            vals, tags = tag_vals(vals)
            case = dict(model=model, cfg=cfg, teams=teams, sel=sel, vals=vals, call={})
            if tags:
                case["vals_tags"] = tags
            meta = dict(regime=f"shape/{pat}", levels=levels, enc=style, ties=tie_shape(levels), k=k, composition=list(comp))
            yield case, meta


def tie_shape(levels):
    k = len(levels)
    nl = len(set(levels))
    if nl == k:
        return "none"
    if nl == 1:
        return "all_tied"
    sizes = sorted(levels.count(x) for x in set(levels))
    if sizes[-1] == 2 and sizes.count(2) == 1:
        return "one_pair"
    return "multi_way"


ENC_STYLES = ["int", "int0", "float", "mixed", "neg", "big", "bool", "negzero", "hugefloat", "tinyfloat", "beyond_double",
              "subclass", "withinf"]


class _F(float):
    """a float subclass (what numpy.float64 is to the library): accepted by isinstance(x, float)"""

    def __neg__(self):
        return _F(-float(self))


class _I(int):
    """an int subclass (what an IntEnum member is to the library)"""

    def __neg__(self):
        return _I(-int(self))


def encode_levels(rng, levels, style=None):
    """Strictly increasing map of dense levels into rank values of the given style."""
    uniq = sorted(set(levels))
    style = style or rng.choice(ENC_STYLES)
    n = len(uniq)
    if style == "bool":
        if n > 2:
            style = "int"
        else:
            vals = [False, True][:n] if rng.random() < 0.5 or n == 2 else [True]
    if style == "int":
        cur = rng.choice([1, 1, 2, 3, 10])
        vals = []
        for _ in uniq:
            vals.append(cur)
            cur += rng.choice([1, 1, 2, 7, 100])
    elif style == "int0":
        vals = list(range(n))
    elif style == "neg":
        cur = rng.choice([-1000, -50, -n, -1])
        vals = []
        for _ in uniq:
            vals.append(cur)
            cur += rng.choice([1, 1, 2, 3])
    elif style == "big":
        cur = rng.choice([-(10 ** 18), 10 ** 15, -(2 ** 70), 2 ** 64 + 1])
        vals = []
        for _ in uniq:
            vals.append(cur)
            cur += rng.choice([1, 2 ** 40, 10 ** 30])
    elif style == "float":
        cur = rng.choice([-3.5, 0.0, 0.5, 1.0, 2.25])
        vals = []
        for _ in uniq:
            vals.append(cur)
            cur += rng.choice([0.25, 0.5, 1.0, 1e-9, 3.0])
    elif style == "mixed":
        if n >= 3 and rng.random() < 0.5:
            # half steps between ints: [1, 1.5, 2, 2.5, ...]
            vals = [1 + i // 2 + (0.5 if i % 2 else 0) for i in range(n)]
        else:
            cur = rng.choice([-2, 0, 1])
            vals = []
            for _ in uniq:
                vals.append(cur)
                cur += rng.choice([1, 2])
    elif style == "negzero":
        # -0.0 and 0.0 compare equal: they must be ONE level, so use them for one level only
        vals = [rng.choice([-0.0, 0.0])] + [float(i) for i in range(1, n)]
    elif style == "hugefloat":
        base = [-1e308, -1e300, -1e200, -1.0, 0.0, 1.0, 1e100, 1e300, 1.7e308]
        idx = sorted(rng.sample(range(len(base)), min(n, len(base))))
        vals = [base[i] for i in idx]
        if n > len(base):
            style = "float"
            vals = [float(i) for i in range(n)]
    elif style == "tinyfloat":
        vals = [i * 5e-324 for i in range(n)]
    elif style == "beyond_double":
        # Python ints order exactly whatever their size; these cannot be converted to float at all
        cur = rng.choice([10 ** 309, -(10 ** 400), 2 ** 5000])
        vals = []
        for _ in uniq:
            vals.append(cur)
            cur += rng.choice([1, 7, 10 ** 300])
    elif style == "withinf":
        # +-infinity as the label of the last / first level ("did not finish", an unbeaten time): totally ordered, equal
        # to itself, accepted by the validation - a level like any other (NaN is not: it is not ordered)
        vals = [float(i + 1) if rng.random() < 0.5 else i + 1 for i in range(n)]
        if rng.random() < 0.8:
            vals[-1] = math.inf
        if n >= 2 and rng.random() < 0.3:
            vals[0] = -math.inf
    elif style == "subclass":
        cur = rng.choice([0, 1, -3])
        vals = []
        for _ in uniq:
            vals.append(_I(cur) if rng.random() < 0.5 else _F(cur + 0.5))
            cur += rng.choice([1, 2])
    m = dict(zip(uniq, vals))
    out = [m[l] for l in levels]
    if style == "mixed":
        # per-team type jitter: the same level may be written 1 for one team and 1.0 for another
        out = [float(v) if (isinstance(v, int) and rng.random() < 0.5) else v for v in out]
        if all(isinstance(v, int) for v in out):
            i = rng.randrange(len(out))
            out[i] = float(out[i])
    elif style == "bool" and rng.random() < 0.5:
        out = [rng.choice([v, int(v), float(v)]) for v in out]
    return out, style


def tag_vals(vals):
    """(plain values, type tags) so that subclass-typed rank values survive the JSON round trip of a replay file"""
    if vals is None:
        return None, None
    tags = ["F" if isinstance(v, _F) else ("I" if isinstance(v, _I) else "") for v in vals]
    if not any(tags):
        return list(vals), None
    return [float(v) if t == "F" else (int(v) if t == "I" else v) for v, t in zip(vals, tags)], tags


def untag_vals(vals, tags):
    if not tags:
        return list(vals)
    return [_F(v) if t == "F" else (_I(v) if t == "I" else v) for v, t in zip(vals, tags)]


def outcome_kwargs(rng, levels, style=None, as_=None):
    """Encode a weak order as ('ranks'|'scores'|None, values)."""
    vals, style = encode_levels(rng, levels, style)
    as_ = as_ or rng.choice(["ranks", "ranks", "scores"])
    if levels == list(range(len(levels))) and rng.random() < 0.15:
        return None, None, "omitted"
    if as_ == "scores":
        return "scores", [(-v if not isinstance(v, bool) else -int(v)) for v in vals], style + "/scores"
    return "ranks", vals, style + "/ranks"


def gen_case(rng, model=None, regime=None, kmax=8, pmax=8, cfg=None, int_only=False, percall=True, kmin=2):
    model = model or rng.choice(MODEL_NAMES)
    cfg = cfg or gen_cfg(rng)
    teams, regime = gen_teams(rng, cfg["beta"], kmin=kmin, kmax=kmax, pmax=pmax, regime=regime,
                              default_rating=(cfg["mu"], cfg["sigma"]))
    lv = weak_order(rng, len(teams))
    sel, vals, style = outcome_kwargs(rng, lv, style=("int" if int_only else None))
    call = {}
    if percall and rng.random() < 0.25:
        b = cfg["beta"]
        call["tau"] = rng.choice([0, 0.0, 1e-3 * b, 25.0 / 300.0, b, 10 * b])
    if percall and rng.random() < 0.25:
        call["limit_sigma"] = rng.choice([True, False])
    vals, tags = tag_vals(vals)
    case = dict(model=model, cfg=cfg, teams=teams, sel=sel, vals=vals, call=call)
    if tags:
        case["vals_tags"] = tags
    if rng.random() < 0.08:
        case["ids"] = "shared"
    if rng.random() < 0.05:
        case["names"] = rng.choice(["same", "none", "same"])  # every player called "bob" / nobody named
    if rng.random() < 0.06:
        case["positional"] = True  # rate(teams, ranks, scores, tau, limit_sigma) called with positional arguments
    if rng.random() < 0.06:
        from .util import FLAVOURS

        # application-side types: list subclasses as containers, a trivial subclass of the model class, ratings that carry
        # extra attributes (util.build applies it)
        case["flavour"] = rng.choice(FLAVOURS)
    meta = dict(regime=regime, levels=lv, enc=style, ties=tie_shape(lv), k=len(teams))
    return case, meta


def permuted(seq, perm):
    return [seq[i] for i in perm]
