"""Tolerance algebra shared by the relational monitors (DESIGN.md section 4, T5/T6)."""
import math

from .util import EPS, GAMMAS, KIND

R = 1e-9


def team_stats(case, tau):
    """float team sums (theta, s2) after tau inflation"""
    th, s2 = [], []
    for t in case["teams"]:
        th.append(math.fsum(p[0] for p in t))
        s2.append(math.fsum(p[1] * p[1] + tau * tau for p in t))
    return th, s2


def wt_noise(case, cfg, tau, levels):
    """Per team i: N_i = sum over teams q tied with i of gamma_i * s_i^2/c_iq^2 * 1e-13/t_iq, the cancellation
    noise C17 allows for W~ (1e-13/t, t = kappa/c_iq).  Zero for non-TM models and games without ties.
    Upper bound for both TM models (uses every tied q, and the smaller c of the two models for s2/c^2,
    the larger for 1/t)."""
    kind = KIND[case["model"]]
    k = len(case["teams"])
    if kind not in ("TMF", "TMP"):
        return [0.0] * k
    th, s2 = team_stats(case, tau)
    beta, kappa = cfg["beta"], cfg["kappa"]
    g = GAMMAS[cfg["gamma"]]
    out = []
    ranks = [sum(1 for o in levels if o < r) for r in levels]
    for i in range(k):
        n = 0.0
        for q in range(k):
            if q == i or levels[q] != levels[i]:
                continue
            c = math.sqrt(s2[i] + s2[q] + 2 * beta * beta)
            c_big = 2 * c
            if g is None:
                gam = math.sqrt(s2[i]) / c
            else:
                gam = max(abs(g(c, k, th[i], s2[i], case["teams"][i], ranks[i])),
                          abs(g(c_big, k, th[i], s2[i], case["teams"][i], ranks[i])))
            n += gam * s2[i] / (c * c) * 1e-13 * c_big / kappa
        out.append(n)
    return out


def mu_noise(case, shift=0.0, tau=None, beta=None):
    """64 eps * sum over all players of (|mu| + |shift|), plus - when tau and beta are given - the rounding INSIDE the
    accumulated update: Omega_i = s_i^2/c * sum_q terms with |terms| <= 1 (BT/PL) or <= |x| + 1 (TM) carries an absolute
    rounding of about eps * s_i^2/c_min * sum_q (1 + |x_iq|) even when the exact sum cancels to nothing (all teams level and
    tied, mu = 0: the first two terms vanish with mu and dmu).  Same term as in C07's allowance (false alarm 12)."""
    n = 64 * EPS * math.fsum(abs(p[0]) + abs(shift) for t in case["teams"] for p in t)
    if tau is not None and beta:
        th, s2 = team_stats(case, tau)
        cmin = math.sqrt(2.0) * beta
        worst = 0.0
        for i in range(len(th)):
            acc = math.fsum(1.0 + abs(th[i] - th[q]) / cmin for q in range(len(th)) if q != i)
            worst = max(worst, s2[i] / cmin * acc)
        n += 16 * EPS * worst
    return n


def rho(sig_post, sig_prior, tau):
    return (sig_post * sig_post) / (sig_prior * sig_prior + tau * tau)


def vt_jump(case, cfg, tau, levels, resummed=None):
    """Per team i: allowance on Omega_i for the discontinuity of the documented asymptotic V~ at x = 0.
    For a band mass below 1e-5 the library returns -x -/+ t, which jumps by 2t where x changes sign (the exact V~
    is 0 there; C17 allows 2t either side).  Two presentations of one game whose tied teams have (numerically)
    equal team mu can land on different sides through a 1-ulp difference of the summed mu.  Allowance:
    sum over such q of s_i^2/c_iq * 4 t_iq  (t = kappa/c_iq; the smaller c of the two TM models bounds both).
    Zero for non-TM models, for games without ties and for tied teams whose mu differ by more than rounding."""
    kind = KIND[case["model"]]
    k = len(case["teams"])
    if kind not in ("TMF", "TMP"):
        return [0.0] * k
    th, s2 = team_stats(case, tau)
    beta, kappa = cfg["beta"], cfg["kappa"]
    allmu = math.fsum(abs(p[0]) for t in case["teams"] for p in t)
    out = []
    for i in range(k):
        n = 0.0
        for q in range(k):
            if q == i or levels[q] != levels[i]:
                continue
            if abs(th[i] - th[q]) > 1e3 * EPS * allmu:
                continue
            # the sign of x can only differ between the two presentations if the float sum of a team's mu can: a
            # single-player team's mu is exact, and a team whose players are summed in the same order gives the same
            # bits.  `resummed` = indices of teams whose summation differs between the presentations (None = all).
            if resummed is not None and i not in resummed and q not in resummed:
                continue
            if len(case["teams"][i]) == 1 and len(case["teams"][q]) == 1 and case["teams"][i][0][0] == case["teams"][q][0][0]:
                continue
            c2 = s2[i] + s2[q] + 2 * beta * beta
            n += s2[i] / c2 * 4 * kappa
        out.append(n)
    return out


def vt_noise(case, cfg, tau, levels):
    """Per team i: cancellation noise of the EXACT branch of V~ (taken when the band mass is >= 1e-5, i.e. t = kappa/c
    above ~1.25e-5): V~ = (phi(-t-|x|) - phi(t-|x|)) / (Phi(t-|x|) - Phi(-t-|x|)) subtracts nearly equal doubles in
    numerator and denominator, so its absolute rounding error is of order eps/t (3.7e-12 at t = 3e-5) and differs
    between two presentations whose x differ in the last bit.  Allowance on Omega_i: sum over tied q whose band mass can
    reach the exact branch of s_i^2/c_iq * 16 eps / t_iq.  Zero for non-TM models, untied games and pairs that are
    certainly on the asymptotic branch (no cancellation there)."""
    kind = KIND[case["model"]]
    k = len(case["teams"])
    if kind not in ("TMF", "TMP"):
        return [0.0] * k
    th, s2 = team_stats(case, tau)
    beta, kappa = cfg["beta"], cfg["kappa"]
    out = []
    for i in range(k):
        n = 0.0
        for q in range(k):
            if q == i or levels[q] != levels[i]:
                continue
            c = math.sqrt(s2[i] + s2[q] + 2 * beta * beta)
            if kind == "TMP":
                c = 2 * c
            t = kappa / c
            x = abs(th[i] - th[q]) / c
            band = 0.5 * (math.erfc(-(t - x) / math.sqrt(2)) - math.erfc(-(-t - x) / math.sqrt(2)))
            if band < 0.5e-5:
                continue
            n += s2[i] / c * 16 * EPS / t
        out.append(n)
    return out
