"""One shard of one check: python -m vmon.worker CNN tier seed shard nshards outfile"""
import importlib
import json
import os
import sys
import time


def main():
    check, tier, seed, shard, nshards, out = sys.argv[1:7]
    from .util import bootstrap

    bootstrap()
    from . import reach
    from .verdict import Ctx

    mod = importlib.import_module(f"vmon.checks.{check.lower()}")
    ctx = Ctx(check, tier, int(seed), int(shard), int(nshards))
    dl = float(os.environ.get("VERIF_DEADLINE") or (240 if tier == "quick" else 3 * 3600))
    ctx.deadline = time.time() + dl
    if getattr(mod, "USE_REACH", True):
        reach.start()
    if hasattr(mod, "setup"):
        mod.setup(ctx)
    for kind, payload in mod.generate(ctx):
        mod.PROBES[kind](ctx, payload)
        if ctx.out_of_time():
            ctx.notes["stopped_early"] = True
            break
    if hasattr(mod, "teardown"):
        mod.teardown(ctx)
    d = ctx.dump()
    if len(d["nontrivial"]) > 200000:
        # large runs: hand the distinct-case hashes over as a file, the driver counts the union with sort -u
        with open(out + ".nt", "w") as f:
            f.write("\n".join(d["nontrivial"]) + "\n")
        d["nontrivial_file"] = out + ".nt"
        d["nontrivial"] = []
    d["reach"] = reach.report(getattr(mod, "REACH", None))
    d["raised"] = reach.raised()
    with open(out, "w") as f:
        json.dump(d, f, default=repr)


if __name__ == "__main__":
    main()
