#!/bin/bash
# Idempotent, offline bootstrap of the only third-party dependency (mpmath, pure Python).
# Restores contain committed files only, so every check calls this first.
set -e
cd "$(dirname "$0")"
PY=${VERIF_PY:-/venv/bin/python}
exec 9>.setup.lock
flock 9
if [ ! -f .deps/mpmath/__init__.py ]; then
  rm -rf .deps.tmp
  PIP_NO_INDEX=1 "$PY" -m pip install -q --no-index --find-links /opt/veriftools/wheels \
      --target .deps.tmp mpmath >/dev/null 2>.setup.err || { cat .setup.err >&2; exit 3; }
  rm -rf .deps && mv .deps.tmp .deps
fi
mkdir -p evidence replays
exit 0
