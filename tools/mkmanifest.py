#!/venv/bin/python
"""Regenerate MANIFEST.json from the check modules that exist (vmon/checks/cNN.py)."""
import importlib, json, os, sys
V = os.path.dirname(os.path.dirname(os.path.abspath(__file__)))
sys.path.insert(0, V)
props = [json.loads(l) for l in open(os.path.join(V, "properties.jsonl"))]
checks, na = [], []
for p in props:
    pid = p["id"]
    path = os.path.join(V, "vmon", "checks", pid.lower() + ".py")
    if not os.path.exists(path):
        na.append(dict(property_id=pid, reason="check not built yet (work in progress; will be claimed once its monitor exists)"))
        continue
    mod = importlib.import_module(f"vmon.checks.{pid.lower()}")
    checks.append(dict(
        property_id=pid,
        quick_cmd=f"./check {pid} --tier quick",
        thorough_cmd=f"./check {pid} --tier thorough",
        evidence_file=f"evidence/{pid}.json",
        replay_cmd_template=f"./check {pid} --replay {{path}}",
        engine=getattr(mod, "ENGINE", "vmon"),
        level_claimed=dict(category=mod.LEVEL, text=getattr(mod, "LEVEL_TEXT", mod.RULE), design_ref=f"DESIGN.md section 5, {pid}"),
        level_note="; ".join(mod.ASSUMPTIONS),
        technique=getattr(mod, "TECHNIQUE", "runtime monitoring: oracle over observed executions of the real code"),
    ))
man = dict(
    version=1,
    setup_cmd="./setup.sh",
    hooks=dict(
        guard="OPENSKILL_VERIF",
        enable="no source hooks: monitors attach from the harness (class/module attribute wrapping, sys.monitoring); "
               "OPENSKILL_VERIF=1 only switches the harness-side pytest plugin (vmon.pytest_plugin) on",
        baseline_off_cmd="cd /repo && /venv/bin/python -m pytest -ra -q -p no:cacheprovider --timeout=900 --continue-on-collection-errors",
        source_commits=[],
        add_only=True,
    ),
    engines=[
        dict(name="vmon", path="vmon/", serves_properties=[c["property_id"] for c in checks],
             kind_free_text="runtime monitors over executions of the real code: contract/frame monitors at the public API, "
                            "mpmath reference-model monitor, shadow-execution (relational) monitors, history monitors over "
                            "leagues, thread-schedule monitor with sys.monitoring yield injection, reach recording"),
    ],
    checks=checks,
    notes="All verdicts are 'held on the executions observed'. Exit codes: 0 held, 1 VIOLATION, 2 INCONCLUSIVE "
          "(a deciding monitor was not reached often enough / a worker died). See DESIGN.md.",
    not_applicable=na,
)
json.dump(man, open(os.path.join(V, "MANIFEST.json"), "w"), indent=1)
print(len(checks), "checks,", len(na), "not yet claimed")
