#!/bin/bash
# tools/runall.sh [tier] [seed]  - run every registered check once, print one line each
cd "$(dirname "$0")/.."
tier=${1:-quick}; seed=${2:-0}
rc=0
for c in $(jq -r '.checks[].property_id' MANIFEST.json); do
  s=$(date +%s.%N)
  out=$(VERIF_SEED=$seed ./check $c --tier $tier ${RUNALL_ARGS} 2>&1); e=$?
  t=$(echo "$(date +%s.%N) - $s" | bc)
  echo "[$e] ${t}s $(echo "$out" | tail -1 | cut -c1-220)"
  [ $e -ne 0 ] && { rc=1; echo "$out" | head -12 | cut -c1-300; }
done
exit $rc
