#!/bin/bash
# tools/runsome.sh <tier> <seed> <check>...  - run the listed checks once, one line each
cd "$(dirname "$0")/.."
tier=$1; seed=$2; shift 2
rc=0
for c in "$@"; do
  s=$(date +%s.%N)
  out=$(VERIF_SEED=$seed ./check $c --tier $tier ${RUNALL_ARGS} 2>&1); e=$?
  t=$(echo "$(date +%s.%N) - $s" | bc)
  echo "[$e] ${t}s $(echo "$out" | tail -1 | cut -c1-220)"
  [ $e -ne 0 ] && { rc=1; echo "$out" | head -12 | cut -c1-300; }
done
exit $rc
