#!/venv/bin/python
"""Which statement lines of the repository do the workloads of ALL checks reach together?  (one process, small budgets)
tools/reach_union.py [scale]   -> prints functions with unreached lines"""
import importlib, os, sys, time
V = os.path.dirname(os.path.dirname(os.path.abspath(__file__)))
sys.path.insert(0, V)
os.environ.setdefault("VERIF_BUDGET_SCALE", sys.argv[1] if len(sys.argv) > 1 else "0.02")
from vmon.util import bootstrap
bootstrap()
from vmon import reach
from vmon.verdict import Ctx
reach.start()
for n in range(1, 21):
    c = f"c{n:02d}"
    mod = importlib.import_module(f"vmon.checks.{c}")
    ctx = Ctx(c.upper(), "quick", 0, 0, 1)
    ctx.deadline = time.time() + 60
    if hasattr(mod, "setup"):
        mod.setup(ctx)
    k = 0
    for kind, payload in mod.generate(ctx):
        try:
            mod.PROBES[kind](ctx, payload)
        except Exception as e:
            print(c, "probe error", repr(e)[:100])
        k += 1
        if ctx.out_of_time():
            break
    print(c, "cases", k, "violations", ctx.nviol, file=sys.stderr)
rep = reach.report(None)
tot = hit = 0
for key, (h, t, un) in sorted(rep.items()):
    tot += t; hit += h
    if un:
        print(f"{key}: {h}/{t} unreached lines {un}")
allrep = reach._state
print("functions with any hit:", len(rep), " lines reached", hit, "of", tot)
never = sorted({os.path.basename(f) + "::" + q for (f, q, l) in allrep["total"]} - set(rep))
print("functions never entered:", never)
