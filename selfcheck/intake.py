#!/venv/bin/python
"""Intake of a sub-agent's seeded change: confirm (tests pass with it, demo fails with it, demo passes without it), then
store it as seeded/<id>/{patch.diff, demo.py, meta.json}.   selfcheck/intake.py <deliver_dir> <A|B> <prop> [needs text]"""
import json, os, shutil, subprocess, sys
HERE = os.path.dirname(os.path.abspath(__file__)); VERIF = os.path.dirname(HERE)
PY = "/venv/bin/python"
deliver, which, prop = sys.argv[1], sys.argv[2], sys.argv[3]
needs = sys.argv[4] if len(sys.argv) > 4 else ""
mid = sys.argv[5] if len(sys.argv) > 5 else f"{prop}-{which}"
patch = os.path.join(deliver, f"mut{which}.diff"); demo = os.path.join(deliver, f"demo{which}.py")
d = f"/tmp/vmut/intake-{mid}"
shutil.rmtree(d, ignore_errors=True); os.makedirs(d)
subprocess.run(["rsync", "-a", "--exclude", ".git", "--exclude", "benchmark", "--exclude", "paper", "--exclude", "__pycache__", "/repo/", d + "/"], check=True)
def demo_on(tree):
    p = subprocess.run([PY, demo], cwd=tree, env=dict(os.environ, PYTHONPATH=tree, PYTHONDONTWRITEBYTECODE="1"), capture_output=True, text=True, timeout=1800)
    return p.returncode, (p.stdout + p.stderr)[-400:]
clean_rc, clean_out = demo_on(d)
p = subprocess.run(["git", "apply", "--unsafe-paths", f"--directory={d}", os.path.abspath(patch)], cwd="/", capture_output=True, text=True)
if p.returncode != 0:
    p = subprocess.run(["patch", "-p1", "-i", os.path.abspath(patch)], cwd=d, capture_output=True, text=True)
    assert p.returncode == 0, p.stdout + p.stderr
t = subprocess.run([PY, "-m", "pytest", "-q", "-p", "no:cacheprovider", "--timeout=600"], cwd=d, capture_output=True, text=True, env=dict(os.environ, PYTHONDONTWRITEBYTECODE="1"))
tests_tail = (t.stdout.strip().splitlines() or [""])[-1]
mut_rc, mut_out = demo_on(d)
shutil.rmtree(d, ignore_errors=True)
ok = clean_rc == 0 and mut_rc == 1 and t.returncode == 0
print(f"{mid}: clean demo rc={clean_rc}  mutant demo rc={mut_rc}  tests: {tests_tail}  -> {'CONFIRMED' if ok else 'REJECTED'}")
if not ok:
    print(clean_out[-300:], "\n---\n", mut_out[-300:]); sys.exit(1)
dst = os.path.join(VERIF, "seeded", mid); os.makedirs(dst, exist_ok=True)
shutil.copy(patch, os.path.join(dst, "patch.diff")); shutil.copy(demo, os.path.join(dst, "demo.py"))
notes = open(os.path.join(deliver, "notes.md")).read() if os.path.exists(os.path.join(deliver, "notes.md")) else ""
meta = dict(id=mid, property=prop, needs_to_manifest=needs, source="independent sub-agent given only the property text and a scratch worktree",
            confirmed=dict(test_suite_with_change=tests_tail, demo_with_change_exit=mut_rc, demo_without_change_exit=clean_rc,
                           demo_output_with_change=mut_out[-300:]),
            commands=["rsync /repo -> /tmp/vmut/intake-<id>; git apply patch.diff", "/venv/bin/python -m pytest -q -p no:cacheprovider (in the scratch copy)",
                      "PYTHONPATH=<scratch> /venv/bin/python demo.py (with and without the change)"],
            agent_notes=notes[:6000])
json.dump(meta, open(os.path.join(dst, "meta.json"), "w"), indent=1)
