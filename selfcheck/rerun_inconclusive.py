#!/venv/bin/python
"""Re-run, for every selfcheck result that has inconclusive checks, just those checks (merging into the stored result)."""
import glob, json, os, subprocess, sys
HERE = os.path.dirname(os.path.abspath(__file__)); V = os.path.dirname(HERE)
for f in sorted(glob.glob(os.path.join(HERE, "results", "*.json"))):
    r = json.load(open(f))
    inc = r.get("inconclusive") or []
    if not inc:
        continue
    mid = r["id"]
    if mid.startswith("seeded-"):
        cmd = [os.path.join(HERE, "run.py"), "--patch", os.path.join(V, "seeded", mid[7:], "patch.diff"), "--id", mid]
    elif mid.startswith("refactor-"):
        cmd = [os.path.join(HERE, "run.py"), "--patch", os.path.join(V, "refactors", mid[9:], "patch.diff"), "--id", mid, "--scale", "1.0"]
    else:
        cmd = [os.path.join(HERE, "run.py"), "--kind", "all", "--only", mid]
    cmd += ["--checks", ",".join(inc), "--merge"] + ([] if "--scale" in cmd else ["--scale", "0.3"])
    p = subprocess.run(cmd, cwd=V, capture_output=True, text=True)
    print(p.stdout.strip()[:220])
