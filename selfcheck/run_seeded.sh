#!/bin/bash
# selfcheck/run_seeded.sh [ids...]  - run every check (quick, reduced budget) against each seeded change
cd "$(dirname "$0")/.."
ids=${@:-$(ls seeded)}
for id in $ids; do
  selfcheck/run.py --patch seeded/$id/patch.diff --id seeded-$id --checks ${CHECKS:-all} --scale ${SCALE:-0.3} --jobs 1 | sed "s/^/$id: /"
done
