"""Break catalogue and benign catalogue for the self-check (DESIGN.md section 8).

Each entry: id, targets (properties it is aimed at), edits = list of (files, old, new[, count]) applied by exact string
replacement to a scratch copy of /repo.  files: 'ALL5' (the five model files), or a list of paths relative to the repo.
"""
W = "openskill/models/weng_lin/"
PL, BTF, BTP, TMF, TMP = (W + "plackett_luce.py", W + "bradley_terry_full.py", W + "bradley_terry_part.py",
                          W + "thurstone_mosteller_full.py", W + "thurstone_mosteller_part.py")
COMMON = W + "common.py"
MCOMMON = "openskill/models/common.py"
ALL5 = [PL, BTF, BTP, TMF, TMP]

FLOOR_FULL = "max(1 - (sigma**2 / team_i.sigma_squared) * delta, self.kappa)"
FLOOR_PART = "max(1 - (sigma**2 / team_i.sigma_squared) * i_delta, self.kappa)"

BREAKS = [
    # ---------------------------------------------------------------- C01
    dict(id="c01_pl_Ai_for_Aq", targets=["C01", "C07"], edits=[([PL], "/ a[q]", "/ a[i]", 3)]),
    dict(id="c01_pl_Cq_strict", targets=["C01"], edits=[([PL], "if team_i.rank >= team_q.rank:", "if team_i.rank > team_q.rank or i == q:")]),
    dict(id="c01_floor_zero", targets=["C01", "C06", "C08"],
         edits=[([PL, BTF, TMF], FLOOR_FULL, "max(1 - (sigma**2 / team_i.sigma_squared) * delta, 0.0)"),
                ([BTP, TMP], FLOOR_PART, "max(1 - (sigma**2 / team_i.sigma_squared) * i_delta, 0.0)")]),
    dict(id="c01_limit_vs_inflated", targets=["C01", "C06", "C15"],
         edits=[(ALL5, "if player.sigma <= player_original.sigma:\n                        player.sigma = player.sigma\n                    else:\n                        player.sigma = player_original.sigma",
                 "infl = math.sqrt(player_original.sigma**2 + tau_squared)\n                    if player.sigma > infl:\n                        player.sigma = infl")]),
    dict(id="c01_ladder_drop_right_ge4", targets=["C01", "C07"], edits=[([COMMON], "right: List[Any] = list(teams[1:])", "right: List[Any] = list(teams[1:3])")]),
    dict(id="c01_gamma_gets_k_minus_1", targets=["C01"], edits=[([PL], "len(team_ratings),\n                team_i.mu,", "len(team_ratings) - 1,\n                team_i.mu,")]),
    dict(id="c01_c_plus_const", targets=["C01", "C16"], edits=[([PL], "return math.sqrt(collective_team_sigma)", "return math.sqrt(collective_team_sigma) + 1e-3")]),
    dict(id="c01_btp_beta2_dropped_factor", targets=["C01", "C19"], edits=[([BTP], "(2 * beta**2)", "(2 * beta**2) * (1.0 if len(team_ratings) < 4 else 0.5)")]),
    dict(id="c01_tau_not_squared", targets=["C01", "C06", "C16"], edits=[([TMP], "tau_squared = tau * tau", "tau_squared = tau")]),
    # ---------------------------------------------------------------- C02
    dict(id="c02_result_rank_sorted_ge4", targets=["C02", "C01"],
         edits=[(ALL5, "unwound_result = _unwind(tenet, result)[0]", "unwound_result = _unwind(tenet, result)[0] if len(result) < 4 else result")]),
    dict(id="c02_limit_pairing_first_player", targets=["C02", "C06", "C01"],
         edits=[([BTF], "player_original = original_teams[team_index][player_index]", "player_original = original_teams[team_index][0]")]),
    dict(id="c02_unwind_tenet_by_rank_value", targets=["C02", "C01"],
         edits=[([COMMON], "matrix = [[tenet[i], [x, i]] for i, x in enumerate(objects_to_sort)]",
                 "matrix = [[tenet[i], [x, tenet[i] if len(objects_to_sort) > 3 and not isinstance(x, int) else i]] for i, x in enumerate(objects_to_sort)]")]),
    # ---------------------------------------------------------------- C03
    dict(id="c03_revert_float_ranks_one_copy", targets=["C03", "C01"], edits=[([TMP], "isinstance(ranks[index], (int, float))", "isinstance(ranks[index], int)")]),
    dict(id="c03_scores_abs", targets=["C03", "C01"], edits=[([BTP], "ranks.append(_unary_minus(score))", "ranks.append(-abs(score))")]),
    dict(id="c03_rank_int_cast", targets=["C03", "C01"], edits=[([PL], "team_scores.append(ranks[index])", "team_scores.append(int(ranks[index]))")]),
    dict(id="c03_bool_ranks_not_values", targets=["C03", "C01"],
         edits=[([BTF], "isinstance(ranks[index], (int, float))", "isinstance(ranks[index], (int, float)) and not isinstance(ranks[index], bool)")]),
    # ---------------------------------------------------------------- C04
    dict(id="c04_pl_index_for_rank", targets=["C04", "C01", "C07"], edits=[([PL], "if team_q.rank <= team_i.rank:", "if q <= i:")]),
    dict(id="c04_sort_key_team_size", targets=["C01", "C04"],
         edits=[([COMMON], "zipped_matrix.sort(key=_pick_zeroth_index)",
                 "zipped_matrix.sort(key=lambda it: (it[0], -len(it[1][0]) if isinstance(it[1][0], list) and it[1][0] and not isinstance(it[1][0][0], list) else 0))")]),
    dict(id="c04_first_player_sigma_shortcut", targets=["C04", "C01", "C05"],
         edits=[([TMF], "sigma_squared = reduce(lambda x, y: x + y, map(lambda p: p.sigma**2, team))",
                 "sigma_squared = reduce(lambda x, y: x + y, map(lambda p: p.sigma**2, team)) if len(team) < 4 else len(team) * team[0].sigma**2")]),
    # ---------------------------------------------------------------- C05
    dict(id="c05_vt_sign", targets=["C05", "C01", "C07", "C17"], edits=[([COMMON], "return (-a if x < 0 else a) / b", "return a / b")]),
    dict(id="c05_share_from_sigma", targets=["C05", "C01"],
         edits=[([TMP], "mu += (sigma**2 / team_i.sigma_squared) * i_omega", "mu += (sigma / math.sqrt(team_i.sigma_squared)) * i_omega")]),
    dict(id="c05_tmf_loss_uses_v_of_x", targets=["C05", "C01", "C07"],
         edits=[([TMF], "omega += -sigma_squared_to_ciq * v(-delta_mu, self.kappa / c_iq)", "omega += -sigma_squared_to_ciq * v(abs(delta_mu), self.kappa / c_iq)")]),
    # ---------------------------------------------------------------- C06
    dict(id="c06_revert_erfc", targets=["C06", "C17", "C01"], edits=[([COMMON], "return 0.5 * math.erfc(-x / math.sqrt(2.0))", "return _normal.cdf(x)")]),
    dict(id="c06_revert_wt", targets=["C06"], edits=[([COMMON], ") / b + (\n        a / b\n    ) ** 2", ") / b + vt(x, t) * vt(x, t)")]),
    dict(id="c06_limit_ignores_percall_true", targets=["C06", "C15"], edits=[([BTP], "        if limit_sigma:\n            final_result = []", "        if self.limit_sigma:\n            final_result = []")]),
    dict(id="c06_limit_le_only_first_team", targets=["C06", "C01"],
         edits=[([PL], "for team_index, team in enumerate(processed_result):\n                final_team = []",
                 "for team_index, team in enumerate(processed_result[:3]):\n                final_team = []")]),
    # ---------------------------------------------------------------- C07
    dict(id="c07_btp_tie_score", targets=["C07", "C01", "C19"], edits=[([BTP], "s = 0.5", "s = 0.5 if len(team_ratings) < 4 else 0.4")]),
    dict(id="c07_tmf_kappa_over_c_on_loss", targets=["C07", "C01"],
         edits=[([TMF], "omega += -sigma_squared_to_ciq * v(-delta_mu, self.kappa / c_iq)", "omega += -sigma_squared_to_ciq * v(-delta_mu, self.kappa / c)")]),
    # ---------------------------------------------------------------- C08
    dict(id="c08_v_guard_removed", targets=["C08", "C17"],
         edits=[([COMMON], "return (\n        -xt if (denominator < sys.float_info.epsilon) else phi_minor(xt) / denominator\n    )", "return phi_minor(xt) / denominator")]),
    dict(id="c08_floor_removed", targets=["C08", "C01"], edits=[([TMF], FLOOR_FULL, "1 - (sigma**2 / team_i.sigma_squared) * delta")]),
    dict(id="c08_pl_exp_unnormalised", targets=["C08", "C01"], edits=[([PL], "i_mu_over_c = math.exp(team_i.mu / c)", "i_mu_over_c = math.exp(team_i.mu) ** (1 / c)")]),
    # ---------------------------------------------------------------- C09
    dict(id="c09_two_team_swapped", targets=["C09", "C12", "C19"], edits=[([BTF], "return [result, 1 - result]", "return [1 - result, result]")]),
    dict(id="c09_wrong_stride", targets=["C09", "C12"], edits=[([TMF], "*[iter(pairwise_probabilities)] * (n - 1)\n            )\n        ]\n\n    def predict_draw", "*[iter(pairwise_probabilities)] * n\n            )\n        ]\n\n    def predict_draw")]),
    dict(id="c09_asymmetric_sab", targets=["C09", "C12", "C19"],
         edits=[([PL], "(mu_a - mu_b) / math.sqrt(n * self.beta**2 + sigma_a + sigma_b)\n                )\n            )\n\n        return [", "(mu_a - mu_b) / math.sqrt(n * self.beta**2 + 2 * sigma_a)\n                )\n            )\n\n        return [")]),
    # ---------------------------------------------------------------- C10
    dict(id="c10_normaliser", targets=["C10", "C12", "C11", "C19"], edits=[([TMP], "denominator = n * (n - 1)\n", "denominator = n * (n - 1) / 2\n")]),
    dict(id="c10_margin_from_n_teams", targets=["C12", "C19", "C11"],
         edits=[([BTP], "total_player_count = sum([len(_) for _ in teams])\n        draw_probability = 1 / total_player_count\n        draw_margin = (\n            math.sqrt(total_player_count)",
                 "total_player_count = sum([len(_) for _ in teams])\n        draw_probability = 1 / total_player_count\n        draw_margin = (\n            math.sqrt(n)", 1)]),
    # ---------------------------------------------------------------- C11
    dict(id="c11_ranks_not_reversed", targets=["C11"], edits=[(ALL5, "ranks = [abs(_ - max_ordinal) + 1 for _ in ranks]", "ranks = list(ranks)")]),
    dict(id="c11_dense_ranks_one_copy", targets=["C11", "C19"],
         edits=[([BTF], "ranks = [abs(_ - max_ordinal) + 1 for _ in ranks]", "ranks = [sorted(set(ranks), reverse=True).index(_) + 1 for _ in ranks]")]),
    # ---------------------------------------------------------------- C12
    dict(id="c12_pw_beta_term", targets=["C12", "C19"],
         edits=[([PL], "(mu_a - mu_b) / math.sqrt(n * self.beta**2 + sigma_a + sigma_b)\n                )\n            )\n\n        return [", "(mu_a - mu_b) / math.sqrt(2 * self.beta**2 + sigma_a + sigma_b)\n                )\n            )\n\n        return [")]),
    dict(id="c12_all5_two_team_n_beta", targets=["C12"], edits=[(ALL5, "total_player_count * self.beta**2\n", "n * self.beta**2\n")]),
    # ---------------------------------------------------------------- C13
    dict(id="c13_length_test_lt", targets=["C13"], edits=[([TMF], "if len(ranks) != len(teams):", "if len(ranks) < len(teams):")]),
    dict(id="c13_duck_typed_players", targets=["C13", "C19"], edits=[([BTP], "if isinstance(player, BradleyTerryPartRating):\n                            pass", "if hasattr(player, \"mu\") and hasattr(player, \"sigma\"):\n                            pass")]),
    dict(id="c13_bools_rejected", targets=["C13", "C19"], edits=[([PL], "for rank in ranks:\n                    if isinstance(rank, (int, float)):", "for rank in ranks:\n                    if isinstance(rank, (int, float)) and not isinstance(rank, bool):")]),
    dict(id="c13_scores_validated_after_inflation", targets=["C13"], edits="MOVE_SCORES_VALIDATION"),
    dict(id="c13_indexerror_path", targets=["C13", "C19"], edits=[([TMP], "if len(team) < 1:", "if not isinstance(team[0], ThurstoneMostellerPartRating) and len(team) < 1:")]),
    # ---------------------------------------------------------------- C14
    dict(id="c14_revert_limit_leak_one_copy", targets=["C14"],
         edits=[([TMF], "        if limit_sigma is None:\n            limit_sigma = self.limit_sigma\n\n        if limit_sigma:", "        if limit_sigma is not None:\n            self.limit_sigma = limit_sigma\n\n        if self.limit_sigma:")]),
    dict(id="c14_team_cache_keyed_by_id", targets=["C14", "C20"], edits="TEAM_CACHE_BY_ID"),
    dict(id="c14_transient_tau_write", targets=["C14"],
         edits=[([BTF], "tau = tau if tau is not None else self.tau\n        tau_squared = tau * tau",
                 "saved_tau = self.tau\n        self.tau = tau if tau is not None else self.tau\n        tau_squared = self.tau * self.tau\n        tau = self.tau\n        self.tau = saved_tau")]),
    dict(id="c14_sorted_by_id_for_ties", targets=["C14", "C01"],
         edits=[([COMMON], "zipped_matrix.sort(key=_pick_zeroth_index)", "zipped_matrix.sort(key=lambda it: (it[0], str(getattr(it[1][0][0], 'id', '')) if isinstance(it[1][0], list) and it[1][0] and hasattr(it[1][0][0], 'id') else ''))")]),
    # ---------------------------------------------------------------- C15
    dict(id="c14_inflation_guard_not_cleared_on_error", targets=["C14"],
         edits=[([PL], "class PlackettLuceRating:", "_INFLATED: set = set()\n\n\nclass PlackettLuceRating:", 1),
                ([PL], "                teams[team_index][player_index].sigma = math.sqrt(\n                    player.sigma * player.sigma + tau_squared\n                )",
                 "                if id(player) not in _INFLATED:\n                    _INFLATED.add(id(player))\n                    teams[team_index][player_index].sigma = math.sqrt(\n                        player.sigma * player.sigma + tau_squared\n                    )"),
                ([PL], "        return final_result", "        _INFLATED.clear()\n        return final_result")]),
    dict(id="c14_module_level_result_buffer", targets=["C14"],
         edits=[([BTF], "class BradleyTerryFullRating:", "_RESULT_BUFFER: List[Any] = []\n\n\nclass BradleyTerryFullRating:", 1),
                ([BTF], "        result = []\n", "        result = _RESULT_BUFFER\n        result.clear()\n", 1),
                ([BTF], "            result.append(intermediate_result_per_team)\n        return result", "            result.append(intermediate_result_per_team)\n        return list(result)")]),
    dict(id="c15_revert_tau_truthiness_one_copy", targets=["C15", "C14"], edits=[([BTP], "tau = tau if tau is not None else self.tau", "tau = tau if tau else self.tau")]),
    dict(id="c15_limit_false_ignored", targets=["C15"], edits=[([PL], "if limit_sigma is None:\n            limit_sigma = self.limit_sigma", "if not limit_sigma:\n            limit_sigma = self.limit_sigma")]),
    # ---------------------------------------------------------------- C16
    dict(id="c16_hardcoded_beta_in_predict_draw", targets=["C16", "C12", "C19"], edits=[([PL], "math.sqrt(total_player_count)\n            * self.beta\n", "math.sqrt(total_player_count)\n            * (25.0 / 6.0)\n", 1)]),
    dict(id="c16_bt_abs_epsilon_in_c", targets=["C16", "C01"], edits=[([BTF], "team_i.sigma_squared + team_q.sigma_squared + (2 * beta**2)\n                )\n                piq", "team_i.sigma_squared + team_q.sigma_squared + (2 * beta**2) + 1e-6\n                )\n                piq")]),
    # ---------------------------------------------------------------- C17
    dict(id="c17_guard_1e-10", targets=["C17", "C01"], edits=[([COMMON], "-xt if (denominator < sys.float_info.epsilon)", "-xt if (denominator < 1e-10)"),
                                                             ([COMMON], "if denominator < sys.float_info.epsilon:\n        return 1 if (x < 0) else 0", "if denominator < 1e-10:\n        return 1 if (x < 0) else 0")]),
    dict(id="c17_w_from_float32_like_v", targets=["C17"], edits=[([COMMON], "return v(x, t) * (v(x, t) + xt)", "vv = round(v(x, t), 7)\n    return vv * (vv + xt)")]),
    dict(id="c17_wt_guard_1e-3", targets=["C17", "C01"], edits=[([COMMON], "if b < sys.float_info.epsilon:\n        return 1.0", "if b < 1e-3:\n        return 1.0")]),
    # ---------------------------------------------------------------- C18
    dict(id="c18_le_is_lt_one_class", targets=["C18", "C19"], edits=[([BTF], "if self.ordinal() <= other.ordinal():", "if self.ordinal() < other.ordinal():")]),
    dict(id="c18_gt_mu_only", targets=["C18", "C19"], edits=[([TMP], "if self.ordinal() > other.ordinal():", "if self.mu > other.mu:")]),
    dict(id="c18_eq_includes_id", targets=["C18", "C19", "C20"], edits=[([PL], "if self.mu == other.mu and self.sigma == other.sigma:", "if self.mu == other.mu and self.sigma == other.sigma and self.name == other.name:")]),
    dict(id="c18_ge_notimplemented_foreign", targets=["C18", "C19"], edits="GE_NOTIMPLEMENTED"),
    # ---------------------------------------------------------------- C19
    dict(id="c19_exception_class_one_copy", targets=["C19", "C13"], edits=[([BTP], "raise ValueError(\n                            f\"Argument 'teams' must have at least 1 player per team", "raise TypeError(\n                            f\"Argument 'teams' must have at least 1 player per team")]),
    dict(id="c19_default_one_copy", targets=["C19"], edits=[([TMP], "kappa: float = 0.0001,", "kappa: float = 0.0002,")]),
    dict(id="c19_param_renamed_one_copy", targets=["C19"], edits=[([TMF], "    def ordinal(self, z: float = 3.0) -> float:", "    def ordinal(self, z: float = 3) -> float:")]),
    # defaults changed consistently in ALL five copies: C19 is blind to it, the property-specific checks must see it through
    # the cases that rely on the library's own default configuration
    dict(id="c01_default_tau_all5", targets=["C01", "C06"], edits=[(ALL5, "tau: float = 25.0 / 300.0,", "tau: float = 26.0 / 300.0,")]),
    dict(id="c06_default_limit_sigma_all5", targets=["C01", "C06"], edits=[(ALL5, "limit_sigma: bool = False,", "limit_sigma: bool = True,")]),
    dict(id="c01_default_kappa_all5", targets=["C01"], edits=[(ALL5, "kappa: float = 0.0001,", "kappa: float = 0.001,")]),
    # ---------------------------------------------------------------- C20
    dict(id="c20_mu_or_default", targets=["C20"], edits=[([BTF], "mu if mu is not None else self.mu,", "mu or self.mu,")]),
    dict(id="c20_deepcopy_drops_name", targets=["C20", "C02", "C19"], edits=[([PL], "plr = PlackettLuceRating(self.mu, self.sigma, self.name)", "plr = PlackettLuceRating(self.mu, self.sigma)")]),
    dict(id="c20_deepcopy_new_id", targets=["C20", "C19"], edits="DEEPCOPY_NEW_ID"),
    dict(id="c20_create_rating_float_cast", targets=["C20"], edits=[([TMF], "return ThurstoneMostellerFullRating(mu=rating[0], sigma=rating[1])", "return ThurstoneMostellerFullRating(mu=abs(rating[0]) if rating[0] == 0 else rating[0], sigma=rating[1])")]),
]

BENIGN = [
    dict(id="ok_sum_for_reduce", edits=[([PL], "mu_summed = reduce(lambda x, y: x + y, map(lambda p: p.mu, team))", "mu_summed = sum(p.mu for p in team)")]),
    dict(id="ok_fsum_sigma", edits=[([BTF], "sigma_squared = reduce(lambda x, y: x + y, map(lambda p: p.sigma**2, team))", "sigma_squared = math.fsum(p.sigma**2 for p in team)")]),
    dict(id="ok_x_times_x", edits=[([BTF], "mu += (sigma**2 / team_i.sigma_squared) * omega", "mu += (sigma * sigma / team_i.sigma_squared) * omega")]),
    dict(id="ok_q_loop_reversed", edits=[([BTF], "            for q, team_q in enumerate(team_ratings):\n                if q == i:\n                    continue", "            for q, team_q in reversed(list(enumerate(team_ratings))):\n                if q == i:\n                    continue")]),
    dict(id="ok_hypot_inflation", edits=[(ALL5, "math.sqrt(\n                    player.sigma * player.sigma + tau_squared\n                )", "math.hypot(player.sigma, tau)")]),
    dict(id="ok_a_via_counter", edits=[([PL], "        result = list(\n            map(\n                lambda i: len(list(filter(lambda q: i.rank == q.rank, team_ratings))),\n                team_ratings,\n            )\n        )\n        return result",
                                        "        from collections import Counter\n\n        cnt = Counter(t.rank for t in team_ratings)\n        return [cnt[t.rank] for t in team_ratings]")]),
    dict(id="ok_rate_returns_fresh_objects", edits=[(ALL5, "original_teams = copy.deepcopy(teams)\n", "original_teams = copy.deepcopy(teams)\n        teams = copy.deepcopy(teams)\n")]),
    dict(id="ok_hoist_kappa_over_ciq", edits=[([TMF], "                delta_mu = (team_i.mu - team_q.mu) / c_iq\n", "                delta_mu = (team_i.mu - team_q.mu) / c_iq\n                t_iq = self.kappa / c_iq\n"),
                                              ([TMF], "v(delta_mu, self.kappa / c_iq)", "v(delta_mu, t_iq)"), ([TMF], "wt(delta_mu, self.kappa / c_iq)", "wt(delta_mu, t_iq)")]),
    dict(id="ok_vt_threshold_3e-6", edits=[([COMMON], "if b < 1e-5:", "if b < 3e-6:")]),
    dict(id="ok_inverse_cdf_memo", edits=[([COMMON], "    return _normal.inv_cdf(x)", "    if x not in _INV_CACHE:\n        _INV_CACHE[x] = _normal.inv_cdf(x)\n    return _INV_CACHE[x]"),
                                           ([COMMON], "_normal = NormalDist()\n", "_normal = NormalDist()\n_INV_CACHE: dict = {}\n")]),
    dict(id="ok_beta_times_beta_one_copy", edits=[([PL], "n * self.beta**2", "n * self.beta * self.beta", 4)]),
    dict(id="ok_unwind_sorted_range", edits=[([COMMON], "            zipped_matrix = list(zip(unsorted_matrix[0], unsorted_matrix[1]))\n            zipped_matrix.sort(key=_pick_zeroth_index)\n            sorted_matrix = [x for _, x in zipped_matrix]",
                                              "            order = sorted(range(len(objects_to_sort)), key=lambda i: tenet[i])\n            sorted_matrix = [[objects_to_sort[i], i] for i in order]")]),
    dict(id="ok_erfc_scaled_constant", edits=[([COMMON], "return 0.5 * math.erfc(-x / math.sqrt(2.0))", "return math.erfc(-x * 0.7071067811865476) / 2.0")]),
    # W~ guard moved from eps to 1e-9: where the band mass is below 1e-9 the exact W~ is within 20t of 1, i.e. inside the
    # allowance C17 states (this entry started life in the break catalogue and was "missed": it is conformant)
    dict(id="ok_wt_guard_1e-9", edits=[([COMMON], "if b < sys.float_info.epsilon:\n        return 1.0", "if b < 1e-9:\n        return 1.0")]),
    dict(id="ok_rating_slots_free_refactor", edits=[([BTP], "        if isinstance(other, BradleyTerryPartRating):\n            if self.mu == other.mu and self.sigma == other.sigma:\n                return True\n            else:\n                return False",
                                                      "        if isinstance(other, BradleyTerryPartRating):\n            return self.mu == other.mu and self.sigma == other.sigma")]),
]


def special(edit_name, read, write):
    """programmatic edits that are awkward as one replacement"""
    if edit_name == "MOVE_SCORES_VALIDATION":
        for f in [PL]:
            s = read(f)
            a = s.index("        # Catch scores argument errors")
            b = s.index("        # Deep Copy Teams")
            block = s[a:b]
            s = s[:a] + s[b:]
            c = s.index("        # Convert Score to Ranks")
            s = s[:c] + block + s[c:]
            write(f, s)
    elif edit_name == "TEAM_CACHE_BY_ID":
        f = PL
        s = read(f)
        s = s.replace("class PlackettLuceRating:", "_TEAM_CACHE: Dict[int, Any] = {}\n\n\nclass PlackettLuceRating:", 1)
        old = ("            mu_summed = reduce(lambda x, y: x + y, map(lambda p: p.mu, team))\n"
               "            sigma_squared = reduce(lambda x, y: x + y, map(lambda p: p.sigma**2, team))\n")
        new = ("            key = id(team)\n"
               "            if ranks is None and key in _TEAM_CACHE:\n"
               "                mu_summed, sigma_squared = _TEAM_CACHE[key]\n"
               "            else:\n"
               "                mu_summed = reduce(lambda x, y: x + y, map(lambda p: p.mu, team))\n"
               "                sigma_squared = reduce(lambda x, y: x + y, map(lambda p: p.sigma**2, team))\n"
               "                if ranks is None:\n"
               "                    _TEAM_CACHE[key] = (mu_summed, sigma_squared)\n")
        assert s.count(old) == 1
        write(f, s.replace(old, new))
    elif edit_name == "GE_NOTIMPLEMENTED":
        f = TMF
        s = read(f)
        a = s.index("    def __ge__")
        b = s.index("    def ordinal", a)
        seg = s[a:b]
        i = seg.index("            raise ValueError(")
        seg2 = seg[:i] + "            return NotImplemented\n\n"
        write(f, s[:a] + seg2 + s[b:])
    elif edit_name == "DEEPCOPY_NEW_ID":
        f = BTP
        s = read(f)
        old = "        btp.id = self.id\n"
        if old not in s:
            import re
            m = re.search(r"        (\w+)\.id = self\.id\n", s)
            old = m.group(0)
        write(f, s.replace(old, "", 1))
    else:
        raise KeyError(edit_name)
