#!/venv/bin/python
"""Regression pass of the self-check after the workloads changed: every entry that has a recorded result is re-run against
the checks that FIRED on it before (and stay recorded for the others, --merge), so 'still caught' is re-established without
paying for the 20 x N full matrix.   selfcheck/regress.py [--part i/n] [--scale 0.3]"""
import glob, json, os, subprocess, sys
HERE = os.path.dirname(os.path.abspath(__file__)); VERIF = os.path.dirname(HERE)
sys.path.insert(0, HERE)
import catalogue
part, nparts, scale = 0, 1, "0.3"
for i, a in enumerate(sys.argv):
    if a == "--part":
        part, nparts = map(int, sys.argv[i + 1].split("/"))
    if a == "--scale":
        scale = sys.argv[i + 1]
breaks = {e["id"] for e in catalogue.BREAKS}
todo = []
for f in sorted(glob.glob(os.path.join(HERE, "results", "*.json"))):
    r = json.load(open(f))
    mid = r["id"]
    fired = r.get("fired") or []
    if not fired or not r.get("tests_pass", True):
        continue
    if mid.startswith("seeded-"):
        sid = mid[len("seeded-"):]
        if os.path.exists(os.path.join(VERIF, "seeded", sid, "patch.diff")):
            todo.append((mid, ["--patch", os.path.join("seeded", sid, "patch.diff"), "--id", mid], fired))
    elif mid in breaks:
        todo.append((mid, ["--kind", "breaks", "--only", mid], fired))
todo = [t for i, t in enumerate(todo) if i % nparts == part]
lost = 0
for mid, sel, fired in todo:
    p = subprocess.run([os.path.join(HERE, "run.py")] + sel + ["--checks", ",".join(fired), "--merge", "--scale", scale, "--jobs", "1"],
                       cwd=VERIF, capture_output=True, text=True)
    line = (p.stdout.strip().splitlines() or [p.stderr[-200:]])[-1]
    now = json.load(open(os.path.join(HERE, "results", mid + ".json"))).get("fired", [])
    gone = sorted(set(fired) - set(now))
    if gone:
        lost += 1
    print(f"{'LOST ' + ','.join(gone) if gone else 'same'}  {line[:230]}", flush=True)
print(f"entries re-run: {len(todo)}, entries that lost a firing check: {lost}")
