#!/venv/bin/python
"""Automatic first-order mutation sampling (a blunt, unbiased complement to the hand-written catalogue and the seeded changes).

Enumerates AST-level mutants of openskill/models/**/*.py (arithmetic and comparison operator swaps, boolean operator swaps,
numeric constant nudges, True/False flips, dropped unary minus / not, swapped arguments of two-argument calls, statement
deletion), samples N of them with a fixed seed, and for each: writes the mutated file into a scratch copy of /repo under /tmp,
runs the repository's tests (-x); if they pass, runs /verif's checks (quick tier, reduced budget) in a fixed order until one
fires.  Result: selfcheck/automut_results.json + a summary (killed by tests / killed by check CNN / survived).
Survivors are listed with their source line so that they can be read: each is either an equivalent mutant or a gap.

  selfcheck/automut.py --n 300 --seed 1 --jobs 3 [--scale 0.15]
"""
import argparse
import ast
import copy
import json
import os
import random
import re
import shutil
import subprocess
import sys
from concurrent.futures import ThreadPoolExecutor

HERE = os.path.dirname(os.path.abspath(__file__))
VERIF = os.path.dirname(HERE)
REPO = "/repo"
PY = "/venv/bin/python"
FILES = ["openskill/models/common.py", "openskill/models/weng_lin/common.py"] + [
    f"openskill/models/weng_lin/{m}.py" for m in ("plackett_luce", "bradley_terry_full", "bradley_terry_part",
                                                  "thurstone_mosteller_full", "thurstone_mosteller_part")]
SKIP_FUNCS = {"__repr__", "__str__"}
ORDER = ["C19", "C01", "C12", "C13", "C18", "C20", "C11", "C09", "C10", "C03", "C02", "C06", "C15", "C17", "C05", "C07", "C04",
         "C16", "C08", "C14"]

BIN = {ast.Add: ast.Sub, ast.Sub: ast.Add, ast.Mult: ast.Div, ast.Div: ast.Mult, ast.Pow: ast.Mult}
CMP = {ast.Lt: ast.LtE, ast.LtE: ast.Lt, ast.Gt: ast.GtE, ast.GtE: ast.Gt, ast.Eq: ast.NotEq, ast.NotEq: ast.Eq,
       ast.Is: ast.IsNot, ast.IsNot: ast.Is}


class Finder(ast.NodeVisitor):
    """collect mutation sites as (kind, path-of-child-indices) - paths are stable across deepcopy"""

    def __init__(self):
        self.sites = []
        self.stack = []
        self.func = []

    def generic_visit(self, node):
        for field, value in ast.iter_fields(node):
            if isinstance(value, list):
                for i, item in enumerate(value):
                    if isinstance(item, ast.AST):
                        self.stack.append((field, i))
                        self.visit(item)
                        self.stack.pop()
            elif isinstance(value, ast.AST):
                self.stack.append((field, None))
                self.visit(value)
                self.stack.pop()

    def add(self, kind, node):
        self.sites.append((kind, tuple(self.stack), getattr(node, "lineno", 0)))

    def visit_FunctionDef(self, node):
        if node.name in SKIP_FUNCS:
            return
        self.func.append(node.name)
        self.generic_visit(node)
        self.func.pop()

    def visit_Expr(self, node):
        if isinstance(node.value, ast.Constant) and isinstance(node.value.value, str):
            return  # docstring
        self.generic_visit(node)

    def visit_BinOp(self, node):
        if type(node.op) in BIN and self.func:
            self.add("binop", node)
        self.generic_visit(node)

    def visit_Compare(self, node):
        if len(node.ops) == 1 and type(node.ops[0]) in CMP and self.func:
            self.add("cmp", node)
        self.generic_visit(node)

    def visit_BoolOp(self, node):
        if self.func:
            self.add("boolop", node)
        self.generic_visit(node)

    def visit_UnaryOp(self, node):
        if isinstance(node.op, (ast.USub, ast.Not)) and self.func:
            self.add("unary", node)
        self.generic_visit(node)

    def visit_Constant(self, node):
        if self.func and isinstance(node.value, (int, float)) and not isinstance(node.value, bool):
            self.add("const", node)
        elif self.func and isinstance(node.value, bool):
            self.add("bool", node)

    def visit_Call(self, node):
        if self.func and len(node.args) == 2 and not node.keywords and isinstance(node.func, (ast.Name, ast.Attribute)):
            self.add("swapargs", node)
        self.generic_visit(node)

    def visit_Assign(self, node):
        if self.func and len(self.func) >= 1:
            self.add("delstmt", node)
        self.generic_visit(node)

    def visit_AugAssign(self, node):
        if self.func:
            self.add("delstmt", node)
            self.add("augop", node)
        self.generic_visit(node)

    def visit_AnnAssign(self, node):
        return  # attribute declarations in __init__: deleting them only breaks imports


def get(node, path):
    for field, i in path:
        node = getattr(node, field)
        if i is not None:
            node = node[i]
    return node


def set_parent_child(tree, path, new):
    parent = get(tree, path[:-1])
    field, i = path[-1]
    if i is None:
        setattr(parent, field, new)
    else:
        getattr(parent, field)[i] = new


def mutate(tree, kind, path):
    t = copy.deepcopy(tree)
    n = get(t, path)
    if kind == "binop":
        n.op = BIN[type(n.op)]()
    elif kind == "cmp":
        n.ops = [CMP[type(n.ops[0])]()]
    elif kind == "boolop":
        n.op = ast.Or() if isinstance(n.op, ast.And) else ast.And()
    elif kind == "unary":
        set_parent_child(t, path, n.operand)
    elif kind == "const":
        v = n.value
        n.value = (v + 1) if isinstance(v, int) else (v * 1.1 if v else 0.1)
    elif kind == "bool":
        n.value = not n.value
    elif kind == "swapargs":
        n.args = [n.args[1], n.args[0]]
    elif kind == "delstmt":
        set_parent_child(t, path, ast.Pass())
    elif kind == "augop":
        n.op = ast.Sub() if isinstance(n.op, ast.Add) else (ast.Add() if isinstance(n.op, ast.Sub) else (
            ast.Div() if isinstance(n.op, ast.Mult) else ast.Mult()))
    ast.fix_missing_locations(t)
    return t


def enumerate_mutants():
    out = []
    for f in FILES:
        src = open(os.path.join(REPO, f)).read()
        tree = ast.parse(src)
        fd = Finder()
        fd.visit(tree)
        lines = src.splitlines()
        for kind, path, lineno in fd.sites:
            out.append(dict(file=f, kind=kind, path=path, line=lineno, text=lines[lineno - 1].strip()[:100] if lineno else ""))
    return out


def run_one(m, args):
    mid = f"am{m['n']:04d}"
    d = f"/tmp/vmut/{mid}"
    shutil.rmtree(d, ignore_errors=True)
    os.makedirs(d)
    res = dict(m, path=None)
    try:
        subprocess.run(["rsync", "-a", "--exclude", ".git", "--exclude", "docs", "--exclude", "benchmark", "--exclude", "paper",
                        "--exclude", "__pycache__", REPO + "/", d + "/"], check=True)
        src = open(os.path.join(REPO, m["file"])).read()
        tree = ast.parse(src)
        new = ast.unparse(mutate(tree, m["kind"], m["path"]))
        if new == ast.unparse(tree):
            res["status"] = "no-op"
            return res
        with open(os.path.join(d, m["file"]), "w") as f:
            f.write(new + "\n")
        p = subprocess.run([PY, "-m", "pytest", "-q", "-x", "-p", "no:cacheprovider", "--timeout=120"], cwd=d, capture_output=True,
                           text=True, env=dict(os.environ, PYTHONDONTWRITEBYTECODE="1"))
        if p.returncode != 0:
            res["status"] = "killed-by-tests"
            return res
        for c in [x for x in ORDER if x not in args.skip.split(",")]:
            env = dict(os.environ, VERIF_REPO=d, VERIF_BUDGET_SCALE=str(args.scale), PYTHONDONTWRITEBYTECODE="1", VERIF_NO_REPO_TESTS="1")
            q = subprocess.run([os.path.join(VERIF, "check"), c, "--tier", "quick", "--no-evidence"], cwd=VERIF, env=env,
                               capture_output=True, text=True)
            for r in re.findall(r"replay=(\S+)", q.stdout):
                try:
                    os.remove(os.path.join(VERIF, r))
                except OSError:
                    pass
            if q.returncode == 1:
                res["status"] = "killed-by-check"
                res["check"] = c
                res["clause"] = (re.findall(r"clause=(\S+)", q.stdout) or [""])[0]
                return res
        res["status"] = "survived"
    except Exception as e:  # noqa: BLE001
        res["status"] = "error"
        res["error"] = repr(e)[:200]
    finally:
        shutil.rmtree(d, ignore_errors=True)
    return res


def main():
    ap = argparse.ArgumentParser()
    ap.add_argument("--n", type=int, default=300)
    ap.add_argument("--seed", type=int, default=1)
    ap.add_argument("--jobs", type=int, default=3)
    ap.add_argument("--scale", type=float, default=0.15)
    ap.add_argument("--list", action="store_true")
    ap.add_argument("--skip", default="", help="comma-separated checks to leave out (e.g. C19: would the property-specific checks kill it too?)")
    ap.add_argument("--out", default="automut_results.json")
    ap.add_argument("--only-survivors", default="", help="re-run only the mutants listed as survivors in this earlier results file "
                                                        "(equivalent mutants must STAY silent when the workloads change)")
    a = ap.parse_args()
    allm = enumerate_mutants()
    if a.only_survivors:
        with open(os.path.join(HERE, a.only_survivors)) as f:
            want = {(x["file"], x["line"], x["kind"], x["text"]) for x in json.load(f)["survivors"]}
        allm = [m for m in allm if (m["file"], m["line"], m["kind"], m["text"]) in want]
        a.n = len(allm)
    if a.list:
        from collections import Counter
        print(len(allm), Counter(m["kind"] for m in allm), Counter(m["file"].split("/")[-1] for m in allm))
        return 0
    rng = random.Random(a.seed)
    sample = rng.sample(allm, min(a.n, len(allm)))
    for i, m in enumerate(sample):
        m["n"] = i
    with ThreadPoolExecutor(max_workers=a.jobs) as ex:
        results = list(ex.map(lambda m: run_one(m, a), sample))
    from collections import Counter
    summ = Counter(r["status"] for r in results)
    bycheck = Counter(r.get("check") for r in results if r["status"] == "killed-by-check")
    out = dict(total_sites=len(allm), sampled=len(sample), seed=a.seed, scale=a.scale, summary=dict(summ), killed_by_check=dict(bycheck),
               survivors=[dict(file=r["file"], line=r["line"], kind=r["kind"], text=r["text"]) for r in results if r["status"] == "survived"],
               results=[{k: v for k, v in r.items() if k != "path"} for r in results])
    with open(os.path.join(HERE, a.out), "w") as f:
        json.dump(out, f, indent=1)
    print(json.dumps(dict(summary=dict(summ), killed_by_check=dict(bycheck)), indent=1))
    for s in out["survivors"]:
        print("SURVIVED", s["file"].split("/")[-1], s["line"], s["kind"], "|", s["text"])
    return 0


if __name__ == "__main__":
    sys.exit(main())
