#!/venv/bin/python
"""Self-check driver: apply a catalogue entry (or a patch file) to a scratch copy of /repo under /tmp, run the repository's
own test suite there, run /verif's checks against the scratch copy (VERIF_REPO), record which checks fire, remove the copy.

  selfcheck/run.py --kind breaks|benign|all [--only id1,id2] [--checks all|targets|C01,C05] [--scale 0.35] [--tier quick]
  selfcheck/run.py --patch seeded/x/patch.diff --id x [--checks ...]
Results: selfcheck/results/<id>.json and a summary on stdout.  Never touches /repo or the registered evidence files.
"""
import argparse
import json
import os
import re
import shutil
import subprocess
import sys
import time
from concurrent.futures import ThreadPoolExecutor

HERE = os.path.dirname(os.path.abspath(__file__))
VERIF = os.path.dirname(HERE)
sys.path.insert(0, HERE)
import catalogue  # noqa: E402

REPO = "/repo"
PY = "/venv/bin/python"
ALL = [f"C{n:02d}" for n in range(1, 21)]


def make_scratch(mid):
    d = f"/tmp/vmut/{mid}"
    shutil.rmtree(d, ignore_errors=True)
    os.makedirs(d)
    subprocess.run(["rsync", "-a", "--exclude", ".git", "--exclude", "benchmark", "--exclude", "paper",
                    "--exclude", "__pycache__", REPO + "/", d + "/"], check=True)
    return d


def apply_entry(entry, d):
    def read(f):
        with open(os.path.join(d, f)) as fh:
            return fh.read()

    def write(f, s):
        with open(os.path.join(d, f), "w") as fh:
            fh.write(s)

    if isinstance(entry["edits"], str):
        catalogue.special(entry["edits"], read, write)
        return
    for ed in entry["edits"]:
        files, old, new = ed[0], ed[1], ed[2]
        cnt = ed[3] if len(ed) > 3 else None
        for f in files:
            s = read(f)
            n = s.count(old)
            if n == 0:
                raise RuntimeError(f"{entry['id']}: pattern not found in {f}: {old[:60]!r}")
            if cnt is None and n != 1:
                raise RuntimeError(f"{entry['id']}: pattern occurs {n}x in {f}: {old[:60]!r}")
            s = s.replace(old, new) if cnt is None or cnt == n or cnt > 1 else s.replace(old, new, cnt)
            write(f, s)


def run_tests(d):
    p = subprocess.run([PY, "-m", "pytest", "-q", "-p", "no:cacheprovider", "-x", "--timeout=600"], cwd=d, capture_output=True,
                       text=True, env=dict(os.environ, PYTHONDONTWRITEBYTECODE="1"))
    tail = (p.stdout.strip().splitlines() or [""])[-1]
    return p.returncode == 0, tail


def run_check(c, d, tier, scale, seed):
    env = dict(os.environ, VERIF_REPO=d, VERIF_BUDGET_SCALE=str(scale), VERIF_SEED=str(seed), PYTHONDONTWRITEBYTECODE="1")
    t0 = time.time()
    p = subprocess.run([os.path.join(VERIF, "check"), c, "--tier", tier, "--no-evidence"], cwd=VERIF, env=env, capture_output=True, text=True)
    clauses = sorted(set(re.findall(r"^VIOLATION .*? clause=(\S+)", p.stdout, re.M)))
    reps = re.findall(r"replay=(\S+)", p.stdout)
    for r in reps:  # scratch witnesses are not kept
        try:
            os.remove(os.path.join(VERIF, r))
        except OSError:
            pass
    return dict(exit=p.returncode, clauses=clauses, wall=round(time.time() - t0, 1),
                last=(p.stdout.strip().splitlines() or [""])[-1][:200], err=p.stderr[-300:] if p.returncode not in (0, 1) else "")


def one(entry, args, patch=None):
    mid = entry["id"]
    d = make_scratch(mid)
    res = dict(id=mid, targets=entry.get("targets", []), kind=entry.get("kind"))
    try:
        if patch:
            p = subprocess.run(["git", "apply", "--unsafe-paths", f"--directory={d}", os.path.abspath(patch)], cwd="/", capture_output=True, text=True)
            if p.returncode != 0:
                p = subprocess.run(["patch", "-p1", "-i", os.path.abspath(patch)], cwd=d, capture_output=True, text=True)
                if p.returncode != 0:
                    raise RuntimeError("patch does not apply: " + p.stdout[-300:] + p.stderr[-300:])
        else:
            apply_entry(entry, d)
        ok, tail = run_tests(d)
        res["tests_pass"] = ok
        res["tests_tail"] = tail
        if args.checks == "targets":
            checks = entry.get("targets") or ALL
        elif args.checks == "all":
            checks = ALL
        else:
            checks = args.checks.split(",")
        res["checks"] = {}
        prev = os.path.join(HERE, "results", mid + ".json")
        if args.merge and os.path.exists(prev):
            with open(prev) as f:
                res["checks"] = json.load(f).get("checks", {})
        for c in checks:
            res["checks"][c] = run_check(c, d, args.tier, args.scale, args.seed)
        res["fired"] = sorted(c for c, r in res["checks"].items() if r["exit"] == 1)
        res["inconclusive"] = sorted(c for c, r in res["checks"].items() if r["exit"] not in (0, 1))
        res["silent"] = sorted(c for c, r in res["checks"].items() if r["exit"] == 0)
    except Exception as e:  # noqa: BLE001
        res["error"] = repr(e)
    finally:
        shutil.rmtree(d, ignore_errors=True)
    os.makedirs(os.path.join(HERE, "results"), exist_ok=True)
    with open(os.path.join(HERE, "results", mid + ".json"), "w") as f:
        json.dump(res, f, indent=1)
    return res


def main():
    ap = argparse.ArgumentParser()
    ap.add_argument("--kind", default="all")
    ap.add_argument("--only")
    ap.add_argument("--checks", default="all")
    ap.add_argument("--scale", type=float, default=0.35)
    ap.add_argument("--tier", default="quick")
    ap.add_argument("--seed", type=int, default=0)
    ap.add_argument("--jobs", type=int, default=2)
    ap.add_argument("--merge", action="store_true", help="keep the results of checks not re-run now")
    ap.add_argument("--patch")
    ap.add_argument("--id")
    a = ap.parse_args()
    if a.patch:
        entries = [dict(id=a.id or os.path.basename(os.path.dirname(os.path.abspath(a.patch))), targets=[], kind="seeded", edits=None)]
    else:
        entries = []
        if a.kind in ("breaks", "all"):
            entries += [dict(e, kind="break") for e in catalogue.BREAKS]
        if a.kind in ("benign", "all"):
            entries += [dict(e, kind="benign") for e in catalogue.BENIGN]
        if a.only:
            want = set(a.only.split(","))
            entries = [e for e in entries if e["id"] in want]
    with ThreadPoolExecutor(max_workers=a.jobs) as ex:
        results = list(ex.map(lambda e: one(e, a, a.patch), entries))
    bad = 0
    for r in results:
        if "error" in r:
            print(f"ERROR   {r['id']}: {r['error']}")
            bad += 1
            continue
        tp = "tests-pass" if r["tests_pass"] else "TESTS-FAIL"
        if r["kind"] == "benign":
            flag = "OK-silent" if not r["fired"] and not r["inconclusive"] else "FALSE-ALARM"
            if flag != "OK-silent":
                bad += 1
        else:
            flag = "CAUGHT" if r["fired"] else "MISSED"
            if not r["fired"] and r["tests_pass"]:
                bad += 1
        det = "; ".join(f"{c}:{','.join(r['checks'][c]['clauses'][:3])}" for c in r["fired"])
        inc = (" inconclusive=" + ",".join(r["inconclusive"])) if r["inconclusive"] else ""
        print(f"{flag:11s} {tp:10s} {r['id']:42s} fired=[{det}]{inc}")
    return 1 if bad else 0


if __name__ == "__main__":
    sys.exit(main())
